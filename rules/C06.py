"""C06 - linear, affine and quaternion transforms obey their algebra and agree (exact-arithmetic clauses).

Every clause is an *identity driver* in drivers/alg_linalg.cpp: a pair of functions NAME__lhs / NAME__rhs that
compute the two sides of an identity - one through rkcommon's public API, the other from the definition in plain
scalar arithmetic or through an independent rkcommon route - or a single NAME__zero whose outputs must vanish.
The driver is compiled (never linked, never run) to LLVM IR with the repository's flags; rkstatic.irnorm maps
every output to a rational-function term over the inputs (the real compiler has done overload resolution,
conversions and inlining), and the two sides are compared by exact polynomial identity (sympy).  sin/cos of the
same argument are shared symbols with sin^2+cos^2 = 1; 1/sqrt(x) is sympy's own power, so normalised vectors have
unit length identically.

  P1   LinearSpace2: det, adjoint()*M = M*adjoint() = det*I, transposed, rows, M*inverse(M) = rcp(M)*M = I, M*v, (A*B)v = A(Bv)
  P2   LinearSpace3: det = Leibniz polynomial, adjoint()*M = M*adjoint() = det*I, transposed, rows, inverse, rcp
  P3   M*v = sum v_k col_k; (A*B)v = A(Bv); det(A*B) = det A det B (2x2, 3x3); xfmPoint/xfmVector(linear) = M*v;
       <xfmNormal(M,n), M v> = <n, v>  (inverse transpose)
  P4   affine: xfmPoint(a,p) = l*p + p0; xfmPoint(a*b,p) = xfmPoint(a, xfmPoint(b,p)); rcp(a)*a = identity; a(rcp(a) p) = p
  P5   xfmVector(affine) = linear part; xfmNormal(affine) = inverse transpose of the linear part
  P6   quaternion product: associative, unit, basis relations ij=k jk=i ki=j ii=-1 ji=-k, conj, q*conj(q) = |q|^2,
       q*rcp(q) = rcp(q)*q = 1, field layout (r,i,j,k)
  P7   LinearSpace3(q)*v = q v conj(q);  LinearSpace3(q1*q2) = LinearSpace3(q1)*LinearSpace3(q2)
  P8   quaternion-from-matrix: for every one of the 4 branches the result is parallel to q when fed L3(q)/|q|^2
  P9   LinearSpace2::rotate = [[c,-s],[s,c]]; LinearSpace3::rotate(u,r) = Rodrigues(c,s,normalize(u));
       Quaternion::rotate = (cos r/2, sin r/2 * normalize(u)); LinearSpace3(Quaternion::rotate(u,2h)) = Rodrigues in half-angle form
  P10  scale, translate, rotate about a point = T(p) R T(-p)
  P11  lookat: columns (U,V,Z) = (normalize(Z x up), U x Z, normalize(point-eye)), origin eye
  P12  yaw/pitch/roll constructor = q_yaw(about j) * q_pitch(about i) * q_roll(about k) in half angles
  P13  compound assignment and mixed scalar operators of LinearSpace2/3, AffineSpace and Quaternion = their binary counterparts
  P14  slerp end points: slerp(0,a,b) = +-a (hemisphere-corrected), slerp(1,a,b) = b on the spherical branch (weights sin(t th)/sin th and
       cos(t th) - d sin(t th)/sin th with sin 0 = 0, cos 0 = 1, cos(acos d) = d), = the normalised operands on the nearly-parallel branch
"""
import re

from rkstatic import irnorm
from rkstatic.front import AnalysisBroken

LEVEL = 'translation_validation'
EXPLANATION = (
    "Two independently written sides of each algebraic identity (rkcommon's API versus the textbook definition or an "
    "independent rkcommon route) are compiled with the real flags to LLVM IR and compared by exact rational-function "
    "normal form, for float (RKCOMMON_NO_SIMD, so rcp/rsqrt are plain divisions), double and padded-float instantiations, the "
    "latter also in the SIMD configuration (where a result computed from the never-written padding lane shows as an undef value): adjoint/det/"
    "inverse/transposed/rows of 2x2 and 3x3 matrices, multiplicativity of det, composition and inversion of affine maps, "
    "xfmPoint/xfmVector/xfmNormal, quaternion product laws, matrix-from-quaternion against q v conj(q), every branch of "
    "quaternion-from-matrix, Rodrigues form of rotate, rotate-about-a-point, lookat, yaw/pitch/roll. This decides the "
    "exact-arithmetic clause for all inputs at once. Three shape rules on the type-checked AST/CFG add: every branch of "
    "quaternion-from-matrix is taken only where its pivot is >= 1 (linear program over the guards), slerp applies the "
    "hemisphere correction on every path (path enumeration over a small term algebra: operands s*a, b with s*dot(a,b) >= 0 "
    "and the angle from s*dot(a,b)), frame() returns (x, cross(N,x), N) with x a non-vanishing normalised vector orthogonal "
    "to N, and orthogonal() is the Newton step (X + X^-T)/2 whose constant budget and "
    "early-exit threshold bring every singular value in [1/64, 64] within 1e-6 of 1 (interval iteration of s -> (s+1/s)/2). "
    "The slerp weights are pinned at both end points (t = 0 and t = 1, both branches). orthogonal() re-applies after its iteration "
    "exactly the reflection it factored out before it (column-sign patterns on both paths), and no function of the transform headers "
    "keeps mutable static state (results depend on the arguments only). "
    "Not decided: floating-point rounding beyond those clauses, the slerp weights for 0 < t < 1 (transcendental), "
    "the SIMD rcp/rsqrt approximations (C07).")

DRIVER = 'drivers/alg_linalg.cpp'
# in the SIMD configuration rcp()/rsqrt() are the hardware estimates refined by one Newton step (property C07): identities whose
# compiled body contains such an estimate are not exact there and are compared in the RKCOMMON_NO_SIMD configurations only
SIMD_APPROX_RE = r'llvm\.x86\.(?:sse|avx512)\.(?:rcp|rsqrt)'
SIMD_APPROX_MAX = 12     # 7 on the pinned tree
FLOOR = 51
SHAPE_DRIVER = 'drivers/c06_shape.cpp'
NAMED_CONST = {'zero': 0.0, 'one': 1.0, 'two': 2.0, 'ulp': 1.1920929e-07, 'empty': None}


def variants(ctx):
    v = [('float', dict(simd=False, extra=('-DNDEBUG',)))]
    v.append(('double', dict(simd=False, extra=('-DNDEBUG', '-DRKV_SCALAR=double'))))
    v.append(('float/padded', dict(simd=False, extra=('-DNDEBUG', '-DRKV_PADDED'))))
    # the SIMD build has its own code paths (explicit specialisations, intrinsics): the exact identities must hold there too, except the
    # three that go through the approximate SIMD rcp()/rsqrt() kernels (their accuracy is C07's subject)
    v.append(('float/padded/SIMD', dict(simd=True, extra=('-DNDEBUG', '-DRKV_PADDED'), skip_approx=True)))
    if ctx.tier == 'thorough':
        v.append(('double/gnu++17', dict(simd=False, std='gnu++17', extra=('-DNDEBUG', '-DRKV_SCALAR=double'))))
        v.append(('float/OMP', dict(simd=False, config='OMP', extra=('-DNDEBUG',))))
        v.append(('double/padded', dict(simd=False, extra=('-DNDEBUG', '-DRKV_PADDED', '-DRKV_SCALAR=double'))))
        v.append(('float/SIMD', dict(simd=True, extra=('-DNDEBUG',), skip_approx=True)))
    return v


def expand_ranges(outs, elem):
    """split memset-style slots `out[a..+n]` (a run of zero bytes) into per-element slots of `elem` bytes"""
    res = {}
    for slot, gts in outs.items():
        m = re.match(r'^(\w+)\[(\d+)\.\.\+(\d+)\]$', slot)
        if m and all(t == 0 for _, t in gts) and int(m.group(3)) % elem == 0 and int(m.group(2)) % elem == 0:
            for off in range(int(m.group(2)), int(m.group(2)) + int(m.group(3)), elem):
                res['%s[%d]' % (m.group(1), off)] = gts
        else:
            res[slot] = gts
    return res


# ============================================================================================
#  linear forms over the matrix entries (for the conditioning rule)
# ============================================================================================
class NotLinear(Exception):
    pass


def linform(tu, e, env, depth=0):
    """{atom: coeff, 1: const} of an expression that is linear in member-access atoms (vx.x ...); env: local var id -> init expr"""
    e = tu.strip(e, casts=True)
    if e is None or depth > 20:
        raise NotLinear('?')
    k = e.get('kind')
    cv = tu.sd(e).get('cv')
    if k in ('IntegerLiteral',) and cv is not None:
        return {1: float(cv)}
    if k == 'FloatingLiteral':
        return {1: float(e.get('value'))}
    if k == 'MemberExpr':
        base = tu.strip(tu.kids(e)[0], casts=True) if tu.kids(e) else None
        if base is not None and base.get('kind') == 'DeclRefExpr':
            return {'%s.%s' % (base['referencedDecl'].get('name'), e.get('name')): 1.0}
        raise NotLinear(tu.show(e))
    if k == 'DeclRefExpr':
        d = e['referencedDecl']
        if d.get('id') in env:
            v = env[d['id']]
            if isinstance(v, tuple) and v and v[0] == 'bound':      # a parameter bound to an argument of the caller's scope
                return linform(tu, v[1], v[2], depth + 1)
            return linform(tu, v, env, depth + 1)
        if d.get('name') in NAMED_CONST and NAMED_CONST[d['name']] is not None:
            return {1: NAMED_CONST[d['name']]}
        raise NotLinear(tu.show(e))
    if k in ('CXXMemberCallExpr', 'CXXFunctionalCastExpr', 'CXXConstructExpr', 'CXXTemporaryObjectExpr'):
        # T(zero) / T(one) / T(ulp): conversion of a named constant object
        for x in tu.walk(e):
            if x.get('kind') == 'DeclRefExpr' and x.get('referencedDecl', {}).get('name') in NAMED_CONST:
                v = NAMED_CONST[x['referencedDecl']['name']]
                if v is None:
                    raise NotLinear(tu.show(e))
                return {1: v}
        ks = tu.kids(e)
        if len(ks) == 1:
            return linform(tu, ks[0], env, depth + 1)
        raise NotLinear(tu.show(e))
    if k == 'UnaryOperator' and e.get('opcode') in ('-', '+'):
        f = linform(tu, tu.kids(e)[0], env, depth + 1)
        return f if e['opcode'] == '+' else {a: -c for a, c in f.items()}
    if k == 'BinaryOperator' and e.get('opcode') in ('+', '-'):
        a = linform(tu, tu.kids(e)[0], env, depth + 1)
        b = linform(tu, tu.kids(e)[1], env, depth + 1)
        out = dict(a)
        for x, c in b.items():
            out[x] = out.get(x, 0.0) + (c if e['opcode'] == '+' else -c)
        return out
    if k == 'BinaryOperator' and e.get('opcode') == '*':
        a = linform(tu, tu.kids(e)[0], env, depth + 1)
        b = linform(tu, tu.kids(e)[1], env, depth + 1)
        for x, y in ((a, b), (b, a)):
            if set(x) <= {1}:
                return {at: c * x.get(1, 0.0) for at, c in y.items()}
        raise NotLinear(tu.show(e))
    raise NotLinear(tu.show(e))


def guard_constraints(tu, cond, truth, env):
    """list of alternatives; each alternative is a list of linear constraints f >= 0 (closure of strict ones) implied by the
    branch condition being `truth`.  Handles  L >= R, L > R, L <= R, L < R  with R possibly max(a, b) / min(a, b)."""
    c = tu.strip(cond, casts=True)
    if c is None or c.get('kind') != 'BinaryOperator' or c.get('opcode') not in ('>=', '>', '<=', '<'):
        raise NotLinear('condition ' + tu.show(cond))
    op = c['opcode']
    L, R = tu.kids(c)
    if op in ('<=', '<'):
        L, R = R, L          # now L >= R (or >)
    def sides(x):
        x0 = tu.strip(x, casts=True)
        if x0 is not None and x0.get('kind') == 'CallExpr' and tu.sd(x0).get('q', '').split('::')[-1] in ('max', 'min'):
            args = tu.call_parts(x0)[2]
            return tu.sd(x0)['q'].split('::')[-1], [linform(tu, a, env) for a in args]
        return None, [linform(tu, x, env)]
    lk, ls = sides(L)
    rk, rs = sides(R)
    def sub(a, b):
        out = dict(a)
        for x, cc in b.items():
            out[x] = out.get(x, 0.0) - cc
        return out
    # L >= R
    if lk is None and rk in (None, 'max'):
        pos = [[sub(ls[0], r) for r in rs]]                       # L >= every element
        neg = [[sub(r, ls[0])] for r in rs]                        # some element >= L
    elif lk is None and rk == 'min':
        pos = [[sub(ls[0], r)] for r in rs]
        neg = [[sub(r, ls[0]) for r in rs]]
    else:
        raise NotLinear('condition ' + tu.show(cond))
    return pos if truth else neg


def _const_id(tu, e):
    """identity of a constant expression: the enumerator it names, else its value"""
    e = tu.strip(e, casts=True)
    while e is not None and e.get('kind') in ('ConstantExpr', 'ParenExpr') and tu.kids(e):
        e = tu.strip(tu.kids(e)[0], casts=True)
    if e is None:
        return None
    if e.get('kind') == 'DeclRefExpr' and e.get('referencedDecl', {}).get('kind') == 'EnumConstantDecl':
        return ('enum', e['referencedDecl'].get('id'))
    cv = tu.sd(e).get('cv')
    return ('val', cv) if cv is not None else None


def _classifier_guards(tu, call, case_expr, env):
    """alternatives of linear constraints under which the classifier call returns the constant of this case.  The classifier is a chain
    `if (c) return K1; ... return c ? Kn : Km;` over its parameters, which are bound to the call's arguments."""
    c = tu.strip(call, casts=True)
    if c is None or c.get('kind') not in ('CallExpr', 'CXXMemberCallExpr'):
        raise NotLinear('switch condition `%s` is not a call of a classifier' % tu.show(call)[:60])
    cf = tu.callee_fn(c)
    if cf is None or tu.body(cf) is None:
        raise NotLinear('classifier `%s` has no body here' % tu.show(call)[:60])
    want = _const_id(tu, case_expr)
    if want is None:
        raise NotLinear('case label `%s` is not a constant' % tu.show(case_expr)[:40])
    env2 = dict(env)
    for pp, a in zip(cf.get('params', []), tu.call_parts(c)[2]):
        env2[pp['id']] = ('bound', a, env)
    paths = []          # (list of (cond, truth), returned expression)

    def ret_paths(e, conds):
        e0 = tu.strip(e, casts=True)
        if e0 is not None and e0.get('kind') == 'ConditionalOperator':
            cnd, a, b = tu.kids(e0)[:3]
            ret_paths(a, conds + [(cnd, True)])
            ret_paths(b, conds + [(cnd, False)])
        else:
            paths.append((conds, e))

    def walk(stmts, conds):
        """True when every path through stmts returns"""
        for st in stmts:
            k = st.get('kind')
            if k == 'ReturnStmt' and tu.kids(st):
                ret_paths(tu.kids(st)[0], conds)
                return True
            if k == 'IfStmt':
                ks = tu.kids(st)
                th = tu.kids(ks[1]) if ks[1].get('kind') == 'CompoundStmt' else [ks[1]]
                t_all = walk(th, conds + [(ks[0], True)])
                if len(ks) > 2:
                    el = tu.kids(ks[2]) if ks[2].get('kind') == 'CompoundStmt' else [ks[2]]
                    e_all = walk(el, conds + [(ks[0], False)])
                    if t_all and e_all:
                        return True
                    if t_all != e_all:
                        raise NotLinear('classifier: an if with one returning arm and an else')
                elif t_all:
                    conds = conds + [(ks[0], False)]
                else:
                    raise NotLinear('classifier: statement `%s` not followed' % tu.show(st)[:40])
                continue
            if k in ('NullStmt',):
                continue
            raise NotLinear('classifier: statement `%s` not followed' % tu.show(st)[:40])
        return False
    if not walk(tu.kids(tu.body(cf)), []):
        raise NotLinear('classifier `%s` can fall off its end' % cf['q'].split('::')[-1])
    alts = []
    for conds, e in paths:
        if _const_id(tu, e) != want:
            continue
        cur = [[]]
        for cnd, truth in conds:
            new = guard_constraints(tu, cnd, truth, env2)
            cur = [a + nn for a in cur for nn in new]
        alts.extend(cur)
    if not alts:
        alts = [[{1: -1.0}]]        # the classifier never returns this constant: infeasible (-1 >= 0)
    return alts


def check_branch_conditioning(ctx, tu):
    """P8c: in the quaternion-from-matrix constructor every branch takes the reciprocal square root of a pivot t; the guards
    under which a branch is taken must imply t >= 1 for every matrix with entries in [-1, 1] (Shepperd's choice of the
    largest pivot).  A branch that can be taken with an arbitrarily small t divides rounding errors of O(eps) by sqrt(t):
    the result is not the rotation of the matrix.  Decided with a linear program over the diagonal entries (polyhedral
    abstract domain): minimise t subject to the guards."""
    from scipy.optimize import linprog
    R = 'R-C06-P8c'
    ctx.describe(R, 'every branch of quaternion-from-matrix is taken only where its pivot t (argument of rsqrt) is >= 1 for matrices '
                    'with entries in [-1,1] (guards imply the bound; linear program over the diagonal entries)')
    n = 0
    for f in sorted(tu.functions.values(), key=lambda x: x.get('rect', '')):
        if f['dep'] or not f.get('ctor') or not f['q'].startswith('rkcommon::math::QuaternionT') or len(f['params']) != 3 \
                or not all('vec_t' in p['ct'] for p in f['params']) or tu.cfg(f) is None:
            continue
        g = tu.cfg(f)
        env = {}
        for b, i, x in g.stmts():
            if x.get('kind') == 'DeclStmt':
                for v in tu.kids(x):
                    if v.get('kind') == 'VarDecl' and tu.kids(v):
                        env[v['id']] = tu.kids(v)[-1]
        # guards of each block: walk the dominator chain through branch edges
        preds = g.preds()
        def pivot_arg(x):
            """argument that reaches rsqrt at this call: rsqrt(t) itself, or helper(t) whose body takes rsqrt of its parameter"""
            if x.get('kind') not in ('CallExpr', 'CXXMemberCallExpr'):
                return None
            args = tu.call_parts(x)[2]
            if tu.sd(x).get('q', '').split('::')[-1] == 'rsqrt' and args:
                return args[0]
            cf = tu.callee_fn(x)
            if cf is not None and tu.body(cf) is not None and len(cf.get('params', [])) == 1 and len(args) == 1 \
                    and cf['q'].startswith('rkcommon::math::'):
                for y in tu.walk(tu.body(cf)):
                    if y.get('kind') == 'CallExpr' and tu.sd(y).get('q', '').split('::')[-1] == 'rsqrt':
                        a0 = tu.strip(tu.call_parts(y)[2][0], casts=True)
                        if a0 is not None and a0.get('kind') == 'DeclRefExpr' and a0['referencedDecl'].get('id') == cf['params'][0]['id']:
                            return args[0]
            return None

        for b, i, x in g.stmts():
            arg = pivot_arg(x)
            if arg is None:
                continue
            n += 1
            inst = '%s: rsqrt(%s) at %s' % (f.get('rect', f['q']).replace('rkcommon::math::', ''), tu.show(arg), tu.loc(x))
            key = '%s|rkcommon/math/Quaternion.h|QuaternionT(vx,vy,vz)|ill-conditioned-branch' % R
            try:
                t = linform(tu, arg, env)
                # collect guards along the unique predecessor chain (structured if/else-if)
                alts = [[]]
                cur = b.id
                seen = set()
                while cur != g.entry and cur not in seen:
                    seen.add(cur)
                    ps = [p for p in preds[cur] if p in g.reachable()]
                    if len(ps) != 1:
                        break
                    p = ps[0]
                    pb = g.blocks[p]
                    lab = tu.node(g.blocks[cur].label) if g.blocks[cur].label else None
                    if pb.cond is not None and lab is not None and lab.get('kind') == 'CaseStmt' and cur in pb.succ:
                        # a switch over the result of a classifier function: the guards are the classifier's path conditions for this case
                        new = _classifier_guards(tu, tu.node(pb.cond), tu.kids(lab)[0], env)
                        alts = [a + nn for a in alts for nn in new]
                    elif pb.cond is not None and len(pb.succ) == 2 and cur in pb.succ:
                        truth = (pb.succ[0] == cur)
                        new = guard_constraints(tu, tu.node(pb.cond), truth, env)
                        alts = [a + nn for a in alts for nn in new]
                    elif pb.cond is not None and len([x for x in pb.succ if x is not None]) > 2:
                        raise NotLinear('multi-way branch `%s` not followed' % tu.show(tu.node(pb.cond))[:60])
                    cur = p
            except NotLinear as e:
                ctx.undecided(R, inst, 'pivot or guard is not a linear form over the matrix entries: %s' % e, tu.loc(x))
                continue
            atoms = sorted({a for alt in alts for con in alt for a in con if a != 1} | {a for a in t if a != 1})
            worst = None
            for alt in alts:
                A, bb = [], []
                for con in alt:       # con >= 0  ->  -con_coeffs . x <= const
                    A.append([-con.get(a, 0.0) for a in atoms])
                    bb.append(con.get(1, 0.0))
                res = linprog([t.get(a, 0.0) for a in atoms], A_ub=A or None, b_ub=bb or None, bounds=[(-1, 1)] * len(atoms), method='highs')
                if res.status == 2:
                    continue          # infeasible combination of guards
                if res.status != 0:
                    worst = None
                    ctx.undecided(R, inst, 'linear program not solved (status %d)' % res.status, tu.loc(x))
                    break
                val = res.fun + t.get(1, 0.0)
                if worst is None or val < worst[0]:
                    worst = (val, dict(zip(atoms, res.x)))
            if worst is None:
                continue
            if worst[0] >= 1 - 1e-6:
                ctx.ok(R, inst, 'guards imply t >= %.3f' % worst[0], tu.loc(x))
            else:
                ctx.violation(R, inst, 'this branch can be taken with its pivot t as small as %.3g (e.g. diagonal %s): rsqrt(t) then amplifies '
                              'rounding errors of the matrix entries without bound and the quaternion no longer describes the matrix\'s '
                              'rotation; every branch must be selected only where its pivot is >= 1' % (
                                  worst[0], ', '.join('%s=%.3g' % kv for kv in sorted(worst[1].items()))), tu.loc(x), key=key)
    ctx.floor(R, n, 8, '4 branches x (float, double)')


OPAQUE_FNS = {'dot', 'lerp', 'normalize', 'abs', 'acos', 'sin', 'cos', 'sqrt', 'rsqrt', 'rcp', 'min', 'max', 'fabs', 'length', 'conj'}


class SlerpPaths:
    """Path enumeration of slerp (helpers inlined) over a small term algebra.  Atoms: ('p', i) parameters; D = dot(p1, p2) is kept
    canonical (dot(-x, y) = -dot(x, y)); neg/abs are normalised.  Conditions that compare D, -D or |D| with a constant restrict the
    feasible set of D (a list of intervals); other conditions fork without restricting."""

    def __init__(self, tu, fn):
        self.tu = tu
        self.fn = fn
        self.D = ('D',)
        self.und = None
        self.choice = {}
        self.unknown_cond = False

    def forks(self, e, env, feas):
        """[(feasible set, term)] of an expression, one entry per consistent choice of the conditional operators inside it"""
        import itertools
        tu = self.tu
        ites = [x for x in tu.walk(e) if isinstance(x, dict) and x.get('kind') == 'ConditionalOperator'] if e is not None else []
        if not ites:
            return [(feas, self.term(e, env))]
        out = []
        for combo in itertools.product((True, False), repeat=len(ites)):
            fe = feas
            self.choice = {x['id']: t for x, t in zip(ites, combo)}
            for x, t in zip(ites, combo):
                for fs, truth in self.cond(tu.kids(x)[0], env):
                    if truth == t and fs is not None:
                        fe = self.meet(fe, fs)
            if fe:
                out.append((fe, self.term(e, env)))
        self.choice = {}
        return out

    # ---- terms
    def neg(self, t):
        if t[0] == 'neg':
            return t[1]
        if t[0] == 'num':
            return ('num', -t[1])
        return ('neg', t)

    def term(self, e, env, depth=0):
        tu = self.tu
        e = tu.strip(e)
        if e is None or depth > 40:
            return ('?',)
        k = e.get('kind')
        if k in ('FloatingLiteral', 'IntegerLiteral'):
            return ('num', float(e.get('value')))
        if k == 'DeclRefExpr':
            d = e['referencedDecl'].get('id')
            return env.get(d, ('var', e['referencedDecl'].get('name')))
        if k in CASTS_C06 or k in ('CXXConstructExpr', 'CXXTemporaryObjectExpr'):
            ks = tu.kids(e)
            if len(ks) == 1:
                return self.term(ks[0], env, depth + 1)
            return ('op', 'construct') + tuple(self.term(x, env, depth + 1) for x in ks)
        if k == 'UnaryOperator' and e.get('opcode') in ('-', '+'):
            t = self.term(tu.kids(e)[0], env, depth + 1)
            return self.neg(t) if e['opcode'] == '-' else t
        if k == 'BinaryOperator':
            l, r = (self.term(x, env, depth + 1) for x in tu.kids(e))
            return ('op', e.get('opcode'), l, r)
        if k == 'ConditionalOperator':
            c, a, b = tu.kids(e)
            truth = self.choice.get(e['id'])
            if truth is None:
                return ('?', 'conditional')
            return self.term(a if truth else b, env, depth + 1)
        if k in ('CallExpr', 'CXXOperatorCallExpr', 'CXXMemberCallExpr'):
            sd, obj, args = tu.call_parts(e)
            name = sd.get('q', '').split('::')[-1]
            ts = tuple(self.term(x, env, depth + 1) for x in ([obj] if obj is not None else []) + list(args))
            if name == 'operator-' and len(ts) == 1:
                return self.neg(ts[0])
            if name == 'dot' and len(ts) == 2:
                s = 1
                xs = []
                for t in ts:
                    if t[0] == 'neg':
                        s, t = -s, t[1]
                    xs.append(t)
                if set(xs) == {('p', 1), ('p', 2)}:
                    return self.D if s > 0 else ('neg', self.D)
                return ('op', 'dot') + tuple(xs)
            if name in ('abs', 'fabs') and len(ts) == 1:
                t = ts[0]
                return ('abs', t[1] if t[0] == 'neg' else t)
            return ('op', name) + ts
        return ('?', k)

    # ---- feasible sets of D: list of (lo, lo_open, hi, hi_open)
    FULL = [(-float('inf'), True, float('inf'), True)]

    @staticmethod
    def meet(A, B):
        out = []
        for (al, alo, ah, aho) in A:
            for (bl, blo, bh, bho) in B:
                lo, loo = max((al, alo), (bl, blo), key=lambda x: (x[0], x[1]))
                hi, hio = min((ah, aho), (bh, bho), key=lambda x: (x[0], not x[1]))
                if lo < hi or (lo == hi and not loo and not hio):
                    out.append((lo, loo, hi, hio))
        return out

    def constraint(self, t, op, c, truth):
        """feasible set of D for `t op c` being `truth`; None if t is not a function of D"""
        if not truth:
            op = {'<': '>=', '<=': '>', '>': '<=', '>=': '<'}[op]
        inf = float('inf')

        def rel(op, c):
            return {'<': [(-inf, True, c, True)], '<=': [(-inf, True, c, False)], '>': [(c, True, inf, True)], '>=': [(c, False, inf, True)]}[op]
        if t == self.D:
            return rel(op, c)
        if t == ('neg', self.D):
            return rel({'<': '>', '<=': '>=', '>': '<', '>=': '<='}[op], -c)
        if t == ('abs', self.D):
            if op in ('>', '>='):
                return rel(op, c) + rel({'>': '<', '>=': '<='}[op], -c)
            return self.meet(rel(op, c), rel({'<': '>', '<=': '>='}[op], -c))
        return None

    def cond(self, c, env):
        """[(feasible-set-or-None, truth)] for both outcomes of a condition"""
        tu = self.tu
        c = tu.strip(c)
        if c.get('kind') == 'UnaryOperator' and c.get('opcode') == '!':
            return [(fs, not truth) for fs, truth in self.cond(tu.kids(c)[0], env)]
        l = None
        if c.get('kind') == 'BinaryOperator' and c.get('opcode') in ('<', '<=', '>', '>='):
            l, r = (self.term(x, env) for x in tu.kids(c))
            op = c['opcode']
        elif c.get('kind') == 'DeclRefExpr':
            t = env.get(c['referencedDecl'].get('id'))        # a bool local holding a comparison
            if t is not None and t[0] == 'op' and t[1] in ('<', '<=', '>', '>=') and len(t) == 4:
                op, l, r = t[1], t[2], t[3]
        if l is not None:
            if l[0] == 'num' and r[0] != 'num':
                l, r = r, l
                op = {'<': '>', '<=': '>=', '>': '<', '>=': '<='}[op]
            if r[0] == 'num':
                a, b = self.constraint(l, op, r[1], True), self.constraint(l, op, r[1], False)
                if a is not None:
                    return [(a, True), (b, False)]
        self.unknown_cond = True      # both outcomes explored without a restriction: paths may be infeasible
        return [(None, True), (None, False)]

    # ---- statements
    def run(self):
        f = self.fn
        env = {p['id']: ('p', i) for i, p in enumerate(f['params'])}
        return self.block([self.tu.body(f)], env, self.FULL, 0)

    def block(self, stmts, env, feas, depth):
        """-> list of (feasible set, returned term or None (fell through), env)"""
        tu = self.tu
        if depth > 12:
            self.und = 'inlining too deep'
            return []
        states = [(feas, None, dict(env))]
        for st in stmts:
            nxt = []
            for fe, ret, en in states:
                if ret is not None:
                    nxt.append((fe, ret, en))
                    continue
                nxt.extend(self.stmt(st, en, fe, depth))
            states = nxt
        return states

    def stmt(self, st, env, feas, depth):
        tu = self.tu
        if st is None:
            return [(feas, None, env)]
        if st.get('kind') == 'ExprWithCleanups':
            st = tu.kids(st)[0]
        k = st.get('kind')
        if k == 'CompoundStmt':
            return self.block(tu.kids(st), env, feas, depth)
        if k == 'DeclStmt':
            states = [(feas, dict(env))]
            for v in tu.kids(st):
                if v.get('kind') != 'VarDecl':
                    continue
                nxt = []
                for fe, en in states:
                    if not tu.kids(v):
                        en[v['id']] = ('var', v.get('name'))
                        nxt.append((fe, en))
                        continue
                    for fe2, t in self.forks(tu.kids(v)[-1], en, fe):
                        en2 = dict(en)
                        en2[v['id']] = t
                        nxt.append((fe2, en2))
                states = nxt
            return [(fe, None, en) for fe, en in states]
        if k == 'IfStmt':
            raw = [x for x in st.get('inner', []) if isinstance(x, dict) and x.get('kind')]
            c, th = raw[0], raw[1]
            el = raw[2] if len(raw) > 2 else None
            out = []
            for fs, truth in self.cond(c, env):
                fe = feas if fs is None else self.meet(feas, fs)
                if not fe:
                    continue
                out.extend(self.stmt(th if truth else el, dict(env), fe, depth))
            return out
        if k == 'ReturnStmt':
            e = tu.strip(tu.kids(st)[0]) if tu.kids(st) else None
            return self.ret_expr(e, env, feas, depth)
        if k in ('BinaryOperator', 'CXXOperatorCallExpr', 'CompoundAssignOperator'):
            ks = tu.kids(st)
            name = st.get('opcode') or tu.sd(st).get('q', '').split('::')[-1]
            if name in ('=', 'operator='):
                lhs = tu.ref_decl(ks[-2])
                if lhs is not None:
                    out = []
                    for fe2, t in self.forks(ks[-1], env, feas):
                        en2 = dict(env)
                        en2[lhs] = t
                        out.append((fe2, None, en2))
                    return out
            self.und = 'statement `%s`' % tu.show(st)[:60]
            return []
        if k in ('NullStmt',):
            return [(feas, None, env)]
        self.und = 'statement kind %s' % k
        return []

    def ret_expr(self, e, env, feas, depth):
        tu = self.tu
        while e is not None and e.get('kind') in ('CXXConstructExpr', 'CXXTemporaryObjectExpr', 'ExprWithCleanups', 'CXXFunctionalCastExpr') and len(tu.kids(e)) == 1:
            e = tu.strip(tu.kids(e)[0])
        if e is None:
            return [(feas, ('?',), env)]
        if e.get('kind') == 'ConditionalOperator':
            c, a, b = tu.kids(e)
            out = []
            for fs, truth in self.cond(c, env):
                fe = feas if fs is None else self.meet(feas, fs)
                if fe:
                    out.extend(self.ret_expr(tu.strip(a if truth else b), env, fe, depth))
            return out
        if e.get('kind') == 'CallExpr':
            fn = tu.callee_fn(e)
            name = tu.sd(e).get('q', '').split('::')[-1]
            if fn is not None and not fn.get('dep') and tu.body(fn) is not None and name not in OPAQUE_FNS and not name.startswith('operator'):
                args = tu.call_parts(e)[2]
                states = [(feas, {})]
                for p, a in zip(fn['params'], args):
                    states = [(fe2, dict(en, **{p['id']: t})) for fe, en in states for fe2, t in self.forks(a, env, fe)]
                out = []
                for fe, env2 in states:
                    res = self.block([tu.body(fn)], env2, fe, depth + 1)
                    out.extend((fe3, r if r is not None else ('?',), env) for fe3, r, _ in res)
                return out
        return [(fe, t, env) for fe, t in self.forks(e, env, feas)]


CASTS_C06 = {'CStyleCastExpr', 'CXXStaticCastExpr', 'CXXFunctionalCastExpr', 'ImplicitCastExpr', 'ParenExpr', 'MaterializeTemporaryExpr'}


def _subterms(t):
    yield t
    if isinstance(t, tuple):
        for x in t[1:]:
            if isinstance(x, tuple):
                for y in _subterms(x):
                    yield y


def _occ_sign(t, atom, sign=1, out=None):
    """signs with which `atom` occurs in t (neg flips)"""
    out = set() if out is None else out
    if t == atom:
        out.add(sign)
        return out
    if isinstance(t, tuple):
        if t[0] == 'neg':
            _occ_sign(t[1], atom, -sign, out)
        elif t[0] == 'abs' and t[1] == atom:
            out.add(0)
        else:
            for x in t[1:]:
                if isinstance(x, tuple):
                    _occ_sign(x, atom, sign, out)
    return out


def _fmt_feas(fe):
    return ' or '.join('%s%g, %g%s' % ('(' if lo_o else '[', lo, hi, ')' if hi_o else ']') for lo, lo_o, hi, hi_o in fe)


def check_slerp(ctx, tu):
    """slerp(f, a, b): on every path (helpers inlined, conditions on d = dot(a, b) turned into the feasible set of d) the value returned is
    built from s*a and b with one sign s, the path can only be taken when s*d >= 0 (the operands actually interpolated lie in one
    hemisphere: the short way), and every use of the dot value in the result is s*d or |d| (the angle belongs to the operands used)."""
    R = 'R-C06-slerp'
    ctx.describe(R, 'slerp: on every path the result is built from s*a and b with s*dot(a,b) >= 0 on that path, and the angle is computed from s*dot(a,b)')
    n = 0
    for f in sorted(tu.functions.values(), key=lambda x: x['fty']):
        if f['dep'] or f['q'] != 'rkcommon::math::slerp' or tu.body(f) is None or len(f['params']) != 3:
            continue
        n += 1
        inst = 'slerp %s' % f['fty'].replace('rkcommon::math::', '')
        key = '%s|rkcommon/math/Quaternion.h|slerp|' % R
        sp = SlerpPaths(tu, f)
        paths = sp.run()
        if sp.und or not paths:
            ctx.undecided(R, inst, 'body outside the path fragment: %s' % (sp.und or 'no path'), tu.fn_loc(f))
            continue
        bad = und = None
        npaths = 0
        for fe, ret, _ in paths:
            if ret is None:
                und = 'a path falls off the end without a return'
                break
            npaths += 1
            sa = _occ_sign(ret, ('p', 1))
            if not sa or ('?',) in set(_subterms(ret)):
                und = 'returned term `%s` not built from the parameters' % str(ret)[:80]
                break
            if len(sa) != 1 or 0 in sa:
                und = 'the first operand occurs with different signs in one result'
                break
            s = sa.pop()
            want = [(0.0, False, float('inf'), True)] if s > 0 else [(-float('inf'), True, 0.0, False)]
            outside = SlerpPaths.meet(fe, [(-float('inf'), True, 0.0, True)] if s > 0 else [(0.0, True, float('inf'), True)])
            if outside:
                bad = ('hemisphere', 'a path that can be taken with dot(a,b) in %s returns a value interpolated from %sa and b: for those inputs the '
                       'operands lie in opposite hemispheres, the interpolation goes the long way round / through the origin (q and -q are the '
                       'same rotation, the hemisphere correction must come first)' % (_fmt_feas(outside), '' if s > 0 else '-'))
                break
            ds = _occ_sign(ret, ('D',))
            if ds - {s, 0}:
                bad = ('angle', 'the result interpolates %sa with b but computes the angle / fallback test from %sdot(a,b): operands and angle do not '
                       'belong together' % ('' if s > 0 else '-', '-' if s > 0 else ''))
                break
        if bad and sp.unknown_cond:
            ctx.undecided(R, inst, 'a condition that is not a comparison of dot(a,b) with a constant was explored both ways; a path built that way '
                          'looks wrong (%s) but may be infeasible' % bad[1][:120], tu.fn_loc(f))
        elif bad:
            ctx.violation(R, inst, bad[1], tu.fn_loc(f), key=key + ('return-before-hemisphere-fix' if bad[0] == 'hemisphere' else 'uncorrected-operand-used'))
        elif und:
            ctx.undecided(R, inst, und, tu.fn_loc(f))
        else:
            ctx.ok(R, inst, '%d path(s): each interpolates s*a and b with s*dot(a,b) >= 0 on the path and the angle from s*dot(a,b)' % npaths, tu.fn_loc(f))
    ctx.floor(R, n, 2, 'slerp<float>, slerp<double>')

# ============================================================================================
#  orthogonal(): Newton iteration for the polar factor, decided in the singular-value domain
# ============================================================================================
ORTH_SIGMA = 64.0      # singular values of the inputs lie in [1/64, 64] (condition number <= 64 at unit scale)
ORTH_TOL = 1e-6        # |sigma - 1| of the result (orthonormality to a few float ulp)


class _NoForm(Exception):
    pass


def _mat_terms(tu, e, env, cls, depth=0):
    """linear combination {(inv, transp): coeff} over the loop's iterate M of a matrix-valued expression"""
    e = tu.strip(e)
    if e is None or depth > 30:
        raise _NoForm('?')
    k = e.get('kind')
    s = tu.sd(e)
    if k == 'DeclRefExpr':
        d = e['referencedDecl'].get('id')
        if d in env:
            return dict(env[d])
        raise _NoForm('value of `%s` not tracked' % e['referencedDecl'].get('name'))
    if k == 'CXXThisExpr' or (k == 'UnaryOperator' and e.get('opcode') == '*' and
                              (tu.strip(tu.kids(e)[0]) or {}).get('kind') == 'CXXThisExpr'):
        if 'this' in env:
            return dict(env['this'])          # inside a followed member helper: the object it was called on
        raise _NoForm('`*this` outside a followed member helper')
    if k in ('CXXConstructExpr', 'CXXTemporaryObjectExpr', 'CXXFunctionalCastExpr'):
        ks = tu.kids(e)
        if len(ks) == 1:
            return _mat_terms(tu, ks[0], env, cls, depth + 1)
        raise _NoForm(tu.show(e))
    if k in ('CXXOperatorCallExpr', 'CallExpr', 'CXXMemberCallExpr'):
        sd, obj, args = tu.call_parts(e)
        name = sd.get('q', '').split('::')[-1]
        if k == 'CXXMemberCallExpr' or (k == 'CXXOperatorCallExpr' and sd.get('rec')):
            if sd.get('rec', '') != cls.split('<')[0]:
                raise _NoForm(tu.show(e))
            if name == 'transposed' and not args:
                return {(i, not t): c for (i, t), c in _mat_terms(tu, obj, env, cls, depth + 1).items()}
            if name == 'inverse' and not args:
                return _invert(_mat_terms(tu, obj, env, cls, depth + 1))
            h = _single_return(tu, e) if k == 'CXXMemberCallExpr' else None
            if h is not None:
                # a one-line member helper (e.g. `polarStep()`): its body, with *this standing for the object it is called on
                fn, ret = h
                env2 = _bind(tu, fn, args, env, cls, depth)
                env2['this'] = _mat_terms(tu, obj, env, cls, depth + 1)
                return _mat_terms(tu, ret, env2, cls, depth + 1)
            raise _NoForm(tu.show(e))
        if name == 'rcp' and len(args) == 1:
            return _invert(_mat_terms(tu, args[0], env, cls, depth + 1))
        if name in ('operator+', 'operator-') and len(args) == 2:
            a = _mat_terms(tu, args[0], env, cls, depth + 1)
            b = _mat_terms(tu, args[1], env, cls, depth + 1)
            sg = 1.0 if name == 'operator+' else -1.0
            for t, c in b.items():
                a[t] = a.get(t, 0.0) + sg * c
            return a
        if name == 'operator-' and len(args) == 1:
            return {t: -c for t, c in _mat_terms(tu, args[0], env, cls, depth + 1).items()}
        if name in ('operator*', 'operator/') and len(args) == 2:
            c0, c1 = _scalar_const(tu, args[0]), _scalar_const(tu, args[1])
            if name == 'operator*' and c0 is not None and c1 is None:
                return {t: c0 * c for t, c in _mat_terms(tu, args[1], env, cls, depth + 1).items()}
            if c1 is not None and c0 is None and (name == 'operator*' or c1 != 0):
                f = c1 if name == 'operator*' else 1.0 / c1
                return {t: f * c for t, c in _mat_terms(tu, args[0], env, cls, depth + 1).items()}
        h = _single_return(tu, e)
        if h is not None and obj is None:
            fn, ret = h
            env2 = _bind(tu, fn, args, env, cls, depth)
            return _mat_terms(tu, ret, env2, cls, depth + 1)
        raise _NoForm(tu.show(e))
    raise _NoForm(tu.show(e))


def _single_return(tu, call):
    """(function, returned expression) of a callee defined in this unit whose body is a single return statement"""
    fn = tu.callee_fn(call)
    if fn is None or fn.get('dep') or tu.body(fn) is None:
        return None
    ks = tu.kids(tu.body(fn))
    if len(ks) == 1 and ks[0].get('kind') == 'ReturnStmt' and tu.kids(ks[0]):
        return fn, tu.kids(ks[0])[0]
    return None


def _bind(tu, fn, args, env, cls, depth):
    env2 = {}
    for p, a in zip(fn['params'], args):
        try:
            env2[p['id']] = _mat_terms(tu, a, env, cls, depth + 1)
        except _NoForm:
            pass
    return env2


def _measure(tu, c, env, scal, cls, depth=0):
    """(threshold, difference terms) of an early-exit test `max(|D.vx|^2, |D.vy|^2) < threshold` (possibly inside a one-line helper)"""
    c = tu.strip(c)
    if c is None or depth > 6:
        raise _NoForm('?')
    if c.get('kind') == 'DeclRefExpr' and c['referencedDecl'].get('id') in scal and \
            'bool' in c.get('type', {}).get('qualType', ''):
        c2, env2 = scal[c['referencedDecl']['id']]          # `const bool converged = <test>;` evaluated where it was declared
        return _measure(tu, c2, env2, scal, cls, depth + 1)
    if c.get('kind') in ('CallExpr', 'CXXMemberCallExpr'):
        h = _single_return(tu, c)
        sd, obj, args = tu.call_parts(c)
        if h is not None and (obj is None or tu.is_this(obj)):
            return _measure(tu, h[1], _bind(tu, h[0], args, env, cls, depth), {}, cls, depth + 1)
    if c.get('kind') != 'BinaryOperator' or c.get('opcode') not in ('<', '<='):
        raise _NoForm('early-exit test `%s` not of the form `measure < constant`' % tu.show(c)[:80])
    l, r = tu.kids(c)
    thr = _scalar_const(tu, r)
    m = tu.strip(l)
    if m.get('kind') == 'DeclRefExpr' and m['referencedDecl'].get('id') in scal:
        m, env = scal[m['referencedDecl']['id']]
        m = tu.strip(m)
    if m.get('kind') == 'CXXMemberCallExpr':
        h = _single_return(tu, m)
        sd_, obj_, args_ = tu.call_parts(m)
        if h is not None and obj_ is not None and not args_:
            # a one-line member measure (e.g. `(m_next - m).maxColumnLength2()`): its body over the object it is called on
            env = {'this': _mat_terms(tu, obj_, env, cls)}
            m = tu.strip(h[1])
    cols = {}
    if m.get('kind') == 'CallExpr' and tu.sd(m).get('q', '').split('::')[-1] == 'max' and len(tu.kids(m)) == 3:
        for d in tu.kids(m)[1:]:
            d = tu.strip(d)
            if d.get('kind') == 'CallExpr' and tu.sd(d).get('q', '').split('::')[-1] == 'dot' and len(tu.kids(d)) == 3:
                x, y = (tu.strip(z) for z in tu.kids(d)[1:])
                if x.get('kind') == y.get('kind') == 'MemberExpr' and x.get('name') == y.get('name'):
                    tx = _mat_terms(tu, tu.kids(x)[0], env, cls)
                    ty = _mat_terms(tu, tu.kids(y)[0], env, cls)
                    if tx == ty:
                        cols[x.get('name')] = tx
    if thr is None or set(cols) != {'vx', 'vy'} or cols['vx'] != cols['vy']:
        raise _NoForm('early-exit measure `%s` is not max(|d.vx|^2, |d.vy|^2) of a tracked difference' % tu.show(l)[:100])
    return thr, cols['vx']


def _invert(t):
    t = {a: c for a, c in t.items() if c != 0}
    if len(t) != 1:
        raise _NoForm('inverse of a sum')
    (i, tr), c = list(t.items())[0]
    return {(not i, tr): 1.0 / c}


def _scalar_const(tu, e):
    e = tu.strip(e, casts=True)
    if e is None:
        return None
    if e.get('kind') in ('FloatingLiteral', 'IntegerLiteral'):
        try:
            return float(e.get('value'))
        except (TypeError, ValueError):
            return None
    if e.get('kind') == 'UnaryOperator' and e.get('opcode') == '-':
        v = _scalar_const(tu, tu.kids(e)[0])
        return -v if v is not None else None
    cv = tu.sd(e).get('cv')
    return float(cv) if cv is not None else None


def _h_image(a, b, lo, hi):
    """image of [lo,hi] (lo>0) under h(s) = a*s + b/s"""
    pts = [lo, hi]
    if a * b > 0:
        sc = (b / a) ** 0.5
        if lo < sc < hi:
            pts.append(sc)
    vals = [a * x + b / x for x in pts]
    return min(vals), max(vals)


def check_orthogonal(ctx, tu):
    """LinearSpace2::orthogonal(): the loop body is X <- a X + b X^-T with constant a, b (transposed()/inverse() themselves are identities
    P1), which acts on every singular value as s <- a s + b/s.  Interval iteration of that scalar map from [1/64, 64] over the loop's constant
    budget, and the bound implied by the early-exit test, must leave |s - 1| <= 1e-6: then the result is orthonormal to that tolerance and is
    the polar factor (the iteration never changes the singular vectors)."""
    R = 'R-C06-orth'
    ctx.describe(R, 'orthogonal(): the iteration is X <- (X + X^-T)/2 and its constant budget and early-exit threshold bring every singular '
                    'value in [1/64, 64] to within 1e-6 of 1 (interval iteration of s <- (s + 1/s)/2)')
    n = 0
    for f in sorted(tu.functions.values(), key=lambda x: x['fty']):
        if f['dep'] or not f['q'].endswith('::orthogonal') or 'LinearSpace2<' not in f['q'] or tu.body(f) is None:
            continue
        n += 1
        inst = 'orthogonal %s' % f['q'].replace('rkcommon::math::', '')
        key = '%s|rkcommon/math/LinearSpace.h|LinearSpace2::orthogonal|' % R
        cls = f['q'].rsplit('::', 1)[0]
        body = tu.body(f)
        loops = [x for x in tu.walk(body) if x.get('kind') in ('ForStmt', 'WhileStmt', 'DoStmt', 'CXXForRangeStmt')]
        outer_stmt, outer_mid = None, None
        if not loops:
            # the iteration may live in a member helper that is applied to the iterate: `m = m.helper();`
            for st in tu.kids(body):
                st0 = tu.strip(st) if st.get('kind') == 'ExprWithCleanups' else st
                if st0 is None or st0.get('kind') != 'CXXOperatorCallExpr' or not tu.sd(st0).get('q', '').endswith('operator=') or len(tu.kids(st0)) != 3:
                    continue
                rhs = tu.strip(tu.kids(st0)[2])
                while rhs is not None and rhs.get('kind') in ('CXXConstructExpr', 'CXXTemporaryObjectExpr', 'CXXFunctionalCastExpr',
                                                                'MaterializeTemporaryExpr', 'CXXBindTemporaryExpr') and len(tu.kids(rhs)) == 1:
                    rhs = tu.strip(tu.kids(rhs)[0])
                if rhs is None or rhs.get('kind') != 'CXXMemberCallExpr':
                    continue
                cf = tu.callee_fn(rhs)
                obj = tu.call_parts(rhs)[1]
                lhs = tu.ref_decl(tu.kids(st0)[1])
                if cf is None or cf.get('dep') or tu.body(cf) is None or lhs is None or tu.ref_decl(obj) != lhs or tu.call_parts(rhs)[2]:
                    continue
                hl = [x for x in tu.walk(tu.body(cf)) if x.get('kind') in ('ForStmt', 'WhileStmt', 'DoStmt', 'CXXForRangeStmt')]
                if len(hl) == 1:
                    outer_stmt, outer_mid, body, loops = st, lhs, tu.body(cf), hl
                    break
        if len(loops) != 1 or loops[0]['kind'] != 'ForStmt':
            ctx.undecided(R, inst, 'expected exactly one counted for-loop, found %s' % ([x['kind'] for x in loops] or 'none'), tu.fn_loc(f))
            continue
        loop = loops[0]
        raw = loop.get('inner', [])
        if len(raw) != 5:
            ctx.undecided(R, inst, 'for-statement layout not recognised', tu.loc(loop))
            continue
        init, _cv, cond, inc, lbody = raw
        # ---- constant budget
        trips = None
        try:
            iv = [v for v in tu.walk(init) if v.get('kind') == 'VarDecl']
            assert len(iv) == 1 and tu.kids(iv[0])
            a0 = _scalar_const(tu, tu.kids(iv[0])[-1])
            c = tu.strip(cond)
            flag = None
            if c.get('kind') == 'BinaryOperator' and c.get('opcode') == '&&':
                for a, b in (tu.kids(c), tu.kids(c)[::-1]):
                    b = tu.strip(b)
                    if b.get('kind') == 'UnaryOperator' and b.get('opcode') == '!' and tu.ref_decl(tu.kids(b)[0]) is not None:
                        flag = tu.ref_decl(tu.kids(b)[0])
                        c = tu.strip(a)
                        break
                assert flag is not None
                fd = tu.node(flag)
                assert fd is not None and fd.get('kind') == 'VarDecl' and tu.kids(fd) and \
                    tu.strip(tu.kids(fd)[-1]).get('kind') == 'CXXBoolLiteralExpr' and not tu.strip(tu.kids(fd)[-1]).get('value')
            l, r = tu.kids(c)
            assert tu.ref_decl(l) == iv[0]['id'] and c.get('opcode') in ('<', '<=', '!=')
            nmax = _scalar_const(tu, r)
            i2 = tu.strip(inc)
            assert i2.get('kind') == 'UnaryOperator' and i2.get('opcode') == '++' and tu.ref_decl(tu.kids(i2)[0]) == iv[0]['id']
            assert a0 is not None and nmax is not None
            for x in tu.walk(lbody):
                if x.get('kind') == 'DeclRefExpr' and x.get('referencedDecl', {}).get('id') == iv[0]['id']:
                    raise AssertionError('counter used in the body')
            trips = int(nmax - a0) + (1 if c['opcode'] == '<=' else 0)
        except (AssertionError, ValueError, TypeError, KeyError):
            ctx.undecided(R, inst, 'loop budget is not a constant count `for (i = a; i < N; ++i)`', tu.loc(loop))
            continue
        # ---- the iterate and the body's effect on it
        stmts = tu.kids(lbody) if lbody.get('kind') == 'CompoundStmt' else [lbody]
        outer = {}
        for v in tu.walk(body):
            if v.get('kind') == 'VarDecl' and cls.split('<')[0].split('::')[-1] in v.get('type', {}).get('qualType', ''):
                outer[v['id']] = v
        inloop = set(v['id'] for v in tu.walk(lbody) if v.get('kind') == 'VarDecl')
        assigned = set()
        for x in tu.walk(lbody):
            if x.get('kind') == 'CXXOperatorCallExpr' and tu.sd(x).get('q', '').endswith('operator='):
                d = tu.ref_decl(tu.kids(x)[1]) if len(tu.kids(x)) > 1 else None
                if d in outer and d not in inloop:
                    assigned.add(d)
        if len(assigned) != 1:
            ctx.undecided(R, inst, 'no single matrix iterate assigned in the loop body', tu.loc(loop))
            continue
        mid = list(assigned)[0]
        if outer_stmt is not None:
            # the helper must start its iterate from *this and hand the iterate back
            mv = tu.nodes.get(mid)
            init = tu.strip(tu.kids(mv)[-1]) if mv is not None and tu.kids(mv) else None
            while init is not None and init.get('kind') in ('CXXConstructExpr', 'CXXTemporaryObjectExpr') and len(tu.kids(init)) == 1:
                init = tu.strip(tu.kids(init)[0])
            from_this = init is not None and init.get('kind') == 'UnaryOperator' and init.get('opcode') == '*' and \
                (tu.strip(tu.kids(init)[0]) or {}).get('kind') == 'CXXThisExpr'
            rets = [x for x in tu.walk(body) if x.get('kind') == 'ReturnStmt']
            rv = tu.strip(tu.kids(rets[0])[0]) if len(rets) == 1 and tu.kids(rets[0]) else None
            while rv is not None and rv.get('kind') in ('CXXConstructExpr', 'CXXTemporaryObjectExpr', 'ExprWithCleanups') and len(tu.kids(rv)) == 1:
                rv = tu.strip(tu.kids(rv)[0])
            back = rv is not None and tu.ref_decl(rv) == mid
            if not (from_this and back):
                ctx.undecided(R, inst, 'the helper holding the iteration does not start from *this and return its iterate', tu.loc(loop))
                continue
        env = {mid: {(False, False): 1.0}}
        scal = {}
        breaks = []
        why = None
        for st in stmts:
            st = tu.strip(st) if st.get('kind') == 'ExprWithCleanups' else st
            k = st.get('kind')
            try:
                if k == 'DeclStmt':
                    for v in tu.kids(st):
                        if v.get('kind') != 'VarDecl' or not tu.kids(v):
                            raise _NoForm(tu.show(st))
                        if v['id'] in outer:
                            env[v['id']] = _mat_terms(tu, tu.kids(v)[-1], env, cls)
                        else:
                            scal[v['id']] = (tu.kids(v)[-1], dict(env))
                elif k == 'CXXOperatorCallExpr' and tu.sd(st).get('q', '').endswith('operator=') and tu.ref_decl(tu.kids(st)[1]) in outer:
                    env[tu.ref_decl(tu.kids(st)[1])] = _mat_terms(tu, tu.kids(st)[2], env, cls)
                elif k == 'IfStmt':
                    ks = tu.kids(st)
                    th = ks[1] if len(ks) > 1 else None
                    if th is not None and th.get('kind') == 'CompoundStmt' and len(tu.kids(th)) == 1:
                        th = tu.kids(th)[0]
                    if len(ks) != 2 or th is None or th.get('kind') != 'BreakStmt':
                        raise _NoForm('if-statement other than `if (small) break;`')
                    breaks.append((ks[0], dict(env), 'break'))
                elif k == 'BinaryOperator' and st.get('opcode') == '=' and flag is not None and tu.ref_decl(tu.kids(st)[0]) == flag:
                    breaks.append((tu.kids(st)[1], dict(env), 'flag'))
                elif k in ('NullStmt',):
                    pass
                else:
                    raise _NoForm(tu.show(st))
            except _NoForm as e:
                why = str(e)
                break
        if why:
            ctx.undecided(R, inst, 'loop body outside the recognised forms: %s' % why[:160], tu.loc(loop))
            continue
        new = {t: c for t, c in env[mid].items() if abs(c) > 0}
        A = new.pop((False, False), 0.0)
        B = new.pop((True, True), 0.0)
        if new:
            other = sorted(new)
            if set(other) <= {(True, False)} and not B:
                ctx.violation(R, inst, 'the step uses the inverse without the transpose (X <- %g X + %g X^-1): its fixed points are the '
                              'involutions, not the orthogonal matrices, so the result is not the closest orthogonal matrix' % (A, new[(True, False)]),
                              tu.loc(loop), key=key + 'step-form')
            else:
                ctx.undecided(R, inst, 'step is not a combination of X and X^-T', tu.loc(loop))
            continue
        # ---- interval iteration of s <- A s + B / s
        lo, hi = 1.0 / ORTH_SIGMA, ORTH_SIGMA
        ok_iter = True
        for _ in range(min(trips, 4000)):
            if lo <= 0:
                ok_iter = False
                break
            lo, hi = _h_image(A, B, lo, hi)
        err_budget = max(abs(lo - 1), abs(hi - 1)) if ok_iter else float('inf')
        newton = abs(A - 0.5) < 1e-12 and abs(B - 0.5) < 1e-12
        if not newton and A < 1 and B > 0 and (1 - A) > 0:
            fx = (B / (1 - A)) ** 0.5         # fixed point of s <- A s + B/s: the input fx*I never moves, whichever exit is taken
            if 1.0 / ORTH_SIGMA <= fx <= ORTH_SIGMA and abs(fx - 1) > ORTH_TOL:
                ctx.violation(R, inst, 'the step X <- %g X + %g X^-T maps a singular value s to %g s + %g/s, whose fixed point is %.6g, not 1: the '
                              'input %.6g*I is returned unchanged although it is not orthogonal' % (A, B, A, B, fx, fx),
                              tu.loc(loop), key=key + 'step-form')
                continue
        # ---- early exit
        err_break = 0.0
        und = None
        for cnd, envb, how in breaks:
            if not newton:
                und = 'early exit of a non-Newton step'
                break
            try:
                thr, dv = _measure(tu, cnd, envb, scal, cls)
            except _NoForm as e:
                und = str(e)
                break
            dv = {t: cc for t, cc in dv.items() if abs(cc) > 1e-15}
            if dv not in ({(False, False): -0.5, (True, True): 0.5}, {(False, False): 0.5, (True, True): -0.5}):
                und = 'early-exit difference is not (new iterate - old iterate)'
                break
            delta = (2.0 * thr) ** 0.5        # |s_new - s_old| <= sqrt(2 c): Frobenius norm <= sqrt(2) max column norm
            mval = env[mid] if how == 'flag' else envb[mid]     # a flag exit happens after the rest of the body has run
            cur = {t: cc for t, cc in mval.items() if abs(cc) > 0}
            if cur == {(False, False): 1.0}:
                eb = 2.0 * delta                                   # the old iterate is returned: |s_old - 1| <= 2 |s_new - s_old|
            else:
                eb = 2.0 * delta * delta / max(1e-300, 1.0 - 2.0 * delta) if delta < 0.5 else float('inf')
            err_break = max(err_break, eb)
        if und:
            ctx.undecided(R, inst, und, tu.loc(loop))
            continue
        if not newton and err_budget > ORTH_TOL:
            ctx.violation(R, inst, 'the step X <- %g X + %g X^-T maps a singular value s to %g s + %g/s; after the %d budgeted iterations a '
                          'singular value starting in [1/64, 64] can still be %.6g away from 1' % (A, B, A, B, trips, err_budget),
                          tu.loc(loop), key=key + 'step-form')
            continue
        if err_budget > ORTH_TOL:
            ctx.violation(R, inst, 'iteration budget %d is too small: the Newton step halves a large singular value per iteration, so an input with '
                          'singular value 64 (or 1/64) still has singular value 1 + %.3g when the loop gives up; the result is not orthonormal '
                          '(|Q^T Q - I| ~ %.3g); at least %d iterations are needed' % (trips, err_budget, 2 * err_budget, _min_trips()),
                          tu.loc(loop), key=key + 'budget')
            continue
        if err_break > ORTH_TOL:
            ctx.violation(R, inst, 'the early exit can leave the loop while a singular value is still %.3g away from 1 (bound from the exit '
                          'threshold and the iterate that is returned)' % err_break, tu.loc(loop), key=key + 'early-exit')
            continue
        ctx.ok(R, inst, 'step (X + X^-T)/2; budget %d leaves |s-1| <= %.3g; early exit leaves |s-1| <= %.3g' % (trips, err_budget, err_break),
               tu.loc(loop))
        check_orthogonal_mirror(ctx, tu, f, outer_stmt if outer_stmt is not None else loop,
                                outer_mid if outer_stmt is not None else mid, inst, key)
    ctx.floor(R, n, 2, 'LinearSpace2<vec2f>::orthogonal, LinearSpace2<vec2d>::orthogonal')


# ---- the reflection that orthogonal() factors out before the iteration must be the one it puts back afterwards -----------------
def _is_l2(ty):
    t = (ty.get('desugaredQualType') or ty.get('qualType', '')).replace('const ', '').strip()
    return bool(re.match(r'^(rkcommon::math::)?LinearSpace2(<|$)', t)) and not re.search(r'::(Scalar|Vector)$', t)


class _Mirror:
    """Evaluates the code around the Newton loop of orthogonal() over column-sign patterns: a matrix value is Base * diag(sx, sy) with
    sx, sy in {+1, -1}; Base is *this before the loop and the loop's limit Q' (the polar factor of the matrix that entered the loop)
    after it.  M = M' D  (D a reflection, D D = I)  implies  polar(M) = polar(M') D, so the pattern applied after the loop must equal the
    one applied before it, on the mirrored path and on the other one."""

    def __init__(self, tu, cval):
        self.tu = tu
        self.cval = cval          # truth value of the `det() < 0` test on this path
        self.m = {}               # matrix variable -> (sx, sy)
        self.sc = {}              # scalar variable -> sign
        self.b = {}               # bool variable -> is the mirrored condition (True) / its negation (False)
        self.saw_cond = False

    def strip(self, e):
        tu = self.tu
        for _ in range(20):
            e = tu.strip(e, casts=True)
            if e is None:
                return None
            if e.get('kind') in ('CXXFunctionalCastExpr', 'CXXBindTemporaryExpr', 'MaterializeTemporaryExpr', 'ExprWithCleanups') and tu.kids(e):
                e = tu.kids(e)[-1]
                continue
            if e.get('kind') in ('CXXConstructExpr', 'CXXTemporaryObjectExpr') and len([k for k in tu.kids(e) if k.get('kind') != 'CXXDefaultArgExpr']) == 1 \
                    and not _is_l2(e.get('type', {})):
                e = tu.kids(e)[0]
                continue
            if e.get('kind') == 'CXXMemberCallExpr' and re.search(r'::operator [a-z ]+$', tu.sd(e).get('q', '')):
                obj = tu.call_parts(e)[1]           # `one.operator float()`: the named constant converted to the scalar type
                if obj is not None:
                    e = obj
                    continue
            return e
        return e

    def cond(self, e):
        """True / False: value of a condition that is (the negation of) the mirrored test on this path; raises _NoForm otherwise"""
        tu = self.tu
        e = self.strip(e)
        if e is None:
            raise _NoForm('?')
        k = e.get('kind')
        if k == 'UnaryOperator' and e.get('opcode') == '!':
            return not self.cond(tu.kids(e)[0])
        if k == 'DeclRefExpr' and tu.ref_decl(e) in self.b:
            self.saw_cond = True
            return self.cval if self.b[tu.ref_decl(e)] else (not self.cval)
        if k in ('BinaryOperator', 'CXXOperatorCallExpr') and (e.get('opcode') in ('<', '>', '<=', '>=') or
                                                               tu.sd(e).get('q', '').split('::')[-1] in ('operator<', 'operator>')):
            ks = tu.kids(e)[-2:]
            op = e.get('opcode') or tu.sd(e).get('q', '').split('::')[-1][len('operator'):]
            isdet = lambda x: any(y.get('kind') == 'CXXMemberCallExpr' and tu.sd(y).get('q', '').endswith('::det') for y in tu.walk(x))
            iszero = lambda x: (_scalar_const(tu, self.strip(x)) == 0.0) or (self.strip(x) or {}).get('kind') == 'DeclRefExpr' and \
                (self.strip(x).get('referencedDecl') or {}).get('name') == 'zero'
            if isdet(ks[0]) and iszero(ks[1]):
                neg = op in ('<', '<=')
            elif isdet(ks[1]) and iszero(ks[0]):
                neg = op in ('>', '>=')
            else:
                raise _NoForm('condition `%s`' % tu.show(e)[:60])
            self.saw_cond = True
            return self.cval if neg else (not self.cval)
        raise _NoForm('condition `%s`' % tu.show(e)[:60])

    def sign(self, e):
        tu = self.tu
        e = self.strip(e)
        if e is None:
            raise _NoForm('?')
        k = e.get('kind')
        if k == 'DeclRefExpr':
            d = tu.ref_decl(e)
            if d in self.sc:
                return self.sc[d]
            nm = (e.get('referencedDecl') or {}).get('name')
            if nm == 'one':
                return 1
            raise _NoForm('scalar `%s`' % nm)
        if k == 'UnaryOperator' and e.get('opcode') in ('-', '+'):
            v = self.sign(tu.kids(e)[0])
            return -v if e['opcode'] == '-' else v
        if k == 'BinaryOperator' and e.get('opcode') == '*':
            return self.sign(tu.kids(e)[0]) * self.sign(tu.kids(e)[1])
        if k == 'ConditionalOperator':
            c, a, b = tu.kids(e)[:3]
            return self.sign(a if self.cond(c) else b)
        v = _scalar_const(tu, e)
        if v in (1.0, -1.0):
            return int(v)
        raise _NoForm('scalar `%s`' % tu.show(e)[:50])

    def column(self, e):
        """(matrix var, column index, sign) of a column-valued expression"""
        tu = self.tu
        e = self.strip(e)
        if e is None:
            raise _NoForm('?')
        k = e.get('kind')
        if k == 'MemberExpr' and e.get('name') in ('vx', 'vy'):
            base = self.strip(tu.kids(e)[0]) if tu.kids(e) else None
            i = 0 if e['name'] == 'vx' else 1
            if base is None or base.get('kind') == 'CXXThisExpr' or (
                    base.get('kind') == 'UnaryOperator' and base.get('opcode') == '*' and
                    (self.strip(tu.kids(base)[0]) or {}).get('kind') == 'CXXThisExpr'):
                return 'this', i, 1            # a column of *this
            d = tu.ref_decl(base)
            if d in self.m:
                return d, i, self.m[d][i]
        if k == 'CXXOperatorCallExpr':
            q = tu.sd(e).get('q', '').split('::')[-1]
            args = tu.kids(e)[1:]
            if q == 'operator-' and len(args) == 1:
                d, i, sg = self.column(args[0])
                return d, i, -sg
            if q == 'operator*' and len(args) == 2:
                for a, b in ((args[0], args[1]), (args[1], args[0])):
                    try:
                        sg = self.sign(a)
                    except _NoForm:
                        continue
                    d, i, s2 = self.column(b)
                    return d, i, sg * s2
        raise _NoForm('column `%s`' % tu.show(e)[:50])

    def matrix(self, e):
        tu = self.tu
        e = self.strip(e)
        if e is None:
            raise _NoForm('?')
        k = e.get('kind')
        if k == 'DeclRefExpr' and tu.ref_decl(e) in self.m:
            return self.m[tu.ref_decl(e)]
        if k == 'UnaryOperator' and e.get('opcode') == '*' and (self.strip(tu.kids(e)[0]) or {}).get('kind') == 'CXXThisExpr':
            return (1, 1)
        if k == 'ConditionalOperator':
            c, a, b = tu.kids(e)[:3]
            return self.matrix(a if self.cond(c) else b)
        if k in ('CXXConstructExpr', 'CXXTemporaryObjectExpr'):
            args = [x for x in tu.kids(e) if x.get('kind') != 'CXXDefaultArgExpr']
            if len(args) == 1:
                return self.matrix(args[0])
            if len(args) == 2:
                cx, cy = self.column(args[0]), self.column(args[1])
                if cx[0] == cy[0] and cx[1] == 0 and cy[1] == 1:
                    return (cx[2], cy[2])
                raise _NoForm('columns exchanged or taken from different matrices in `%s`' % tu.show(e)[:60])
        if k == 'CXXOperatorCallExpr' and tu.sd(e).get('q', '').split('::')[-1] == 'operator*' and len(tu.kids(e)) == 3:
            a, b = tu.kids(e)[1:]
            b0 = self.strip(b)
            if b0 is not None and b0.get('kind') == 'CallExpr' and tu.sd(b0).get('q', '').split('::')[-1] == 'scale':
                v = self.strip(tu.call_parts(b0)[2][0])
                if v is not None and v.get('kind') in ('CXXConstructExpr', 'CXXTemporaryObjectExpr'):
                    comps = [x for x in tu.kids(v) if x.get('kind') != 'CXXDefaultArgExpr']
                    if len(comps) == 2:
                        ma = self.matrix(a)
                        return (ma[0] * self.sign(comps[0]), ma[1] * self.sign(comps[1]))
            raise _NoForm('product `%s` is not M * scale(Vector(+-1, +-1))' % tu.show(e)[:60])
        raise _NoForm('matrix `%s`' % tu.show(e)[:50])

    def stmt(self, st, mat_type):
        tu = self.tu
        st = tu.strip(st) if st.get('kind') in ('ExprWithCleanups',) else st
        k = st.get('kind')
        if k in ('NullStmt',):
            return
        if k == 'CompoundStmt':
            for x in tu.kids(st):
                self.stmt(x, mat_type)
            return
        if k == 'DeclStmt':
            for v in tu.kids(st):
                if v.get('kind') != 'VarDecl':
                    raise _NoForm(tu.show(st)[:60])
                qt = v.get('type', {}).get('qualType', '')
                init = tu.kids(v)[-1] if tu.kids(v) else None
                if _is_l2(v.get('type', {})):
                    self.m[v['id']] = self.matrix(init) if init is not None else (1, 1)
                elif qt.replace('const ', '') == 'bool':
                    try:
                        self.b[v['id']] = True if self.cond(init) == self.cval else False
                    except _NoForm:
                        pass          # some other flag (e.g. the loop's `converged`): not the mirrored test
                else:
                    self.sc[v['id']] = self.sign(init)
            return
        if k == 'IfStmt':
            ks = tu.kids(st)
            c = self.cond(ks[0])
            if c:
                self.stmt(ks[1], mat_type)
            elif len(ks) > 2:
                self.stmt(ks[2], mat_type)
            return
        if k == 'BinaryOperator' and st.get('opcode') == '=' and tu.ref_decl(tu.kids(st)[0]) in self.sc:
            self.sc[tu.ref_decl(tu.kids(st)[0])] = self.sign(tu.kids(st)[1])
            return
        if k == 'CXXOperatorCallExpr' and tu.sd(st).get('q', '').endswith('operator=') and len(tu.kids(st)) == 3:
            lhs = self.strip(tu.kids(st)[1])
            if lhs is not None and lhs.get('kind') == 'DeclRefExpr' and tu.ref_decl(lhs) in self.m:
                self.m[tu.ref_decl(lhs)] = self.matrix(tu.kids(st)[2])
                return
            if lhs is not None and lhs.get('kind') == 'MemberExpr' and lhs.get('name') in ('vx', 'vy'):
                base = self.strip(tu.kids(lhs)[0])
                d = tu.ref_decl(base) if base is not None else None
                if d in self.m:
                    d2, i2, sg = self.column(tu.kids(st)[2])
                    i = 0 if lhs['name'] == 'vx' else 1
                    if d2 != d or i2 != i:
                        raise _NoForm('a column is overwritten with a different column in `%s`' % tu.show(st)[:60])
                    cur = list(self.m[d])
                    cur[i] = sg
                    self.m[d] = tuple(cur)
                    return
        raise _NoForm('statement `%s`' % tu.show(st)[:60])


def check_orthogonal_mirror(ctx, tu, f, loop, mid, inst, key):
    """the statements of orthogonal() before and after its loop; reports through ctx"""
    R = 'R-C06-orth'
    body = tu.body(f)
    seq = tu.kids(body)
    idx = [i for i, x in enumerate(seq) if x is loop]
    if not idx:
        ctx.undecided(R, inst + ' mirror', 'the loop is not a top-level statement of the function body', tu.loc(loop))
        return
    mat_type = 'LinearSpace2'
    results = {}
    used_cond = False
    for cval in (True, False):
        ev = _Mirror(tu, cval)
        try:
            for st in seq[:idx[0]]:
                ev.stmt(st, mat_type)
            if mid not in ev.m:
                raise _NoForm('the iterate is not initialised before the loop')
            pre = ev.m[mid]
            ev.m[mid] = (1, 1)
            post = None
            for st in seq[idx[0] + 1:]:
                if st.get('kind') == 'ReturnStmt':
                    post = ev.matrix(tu.kids(st)[0])
                    break
                ev.stmt(st, mat_type)
            if post is None:
                raise _NoForm('no return statement after the loop')
        except _NoForm as e:
            ctx.undecided(R, inst + ' mirror', 'code around the iteration is outside the column-sign forms: %s' % str(e)[:140], tu.fn_loc(f))
            return
        used_cond = used_cond or ev.saw_cond
        results[cval] = (pre, post)
    bad = [(c, pp) for c, pp in results.items() if pp[0] != pp[1]]
    if bad:
        c, (pre, post) = bad[0]
        ctx.violation(R, inst + ' mirror', 'on the path where det() %s 0 the matrix that enters the iteration is *this * diag(%d, %d), but the result '
                      'is put together as Q * diag(%d, %d): M = M\' D with a reflection D gives polar(M) = polar(M\') D, so the same D has to be '
                      're-applied; with a different one the result is still orthonormal but is not the closest orthogonal matrix (for a '
                      'mirrored input it comes out negated)' % ('<' if c else '>=', pre[0], pre[1], post[0], post[1]), tu.fn_loc(f),
                      key=key + 'mirror-mismatch')
    else:
        ctx.ok(R, inst + ' mirror', 'column signs before / after the iteration agree: %s' % (
            ', '.join('det %s 0: diag%s' % ('<' if c else '>=', pp[0]) for c, pp in sorted(results.items(), reverse=True)) if used_cond
            else 'diag%s' % (results[True][0],)), tu.fn_loc(f))


def _min_trips():
    lo, hi = 1.0 / ORTH_SIGMA, ORTH_SIGMA
    for k in range(1, 200):
        lo, hi = _h_image(0.5, 0.5, lo, hi)
        if max(abs(lo - 1), abs(hi - 1)) <= ORTH_TOL:
            return k
    return 200


# ============================================================================================
#  frame(N) / frame(N, up): orthonormal right-handed frame around a unit normal, by vector-algebra facts
# ============================================================================================
def _vterm(tu, e, env, depth=0):
    """symbolic vector term: ('p', param-index) | ('e', axis) | ('cross', a, b) | ('norm', a) | ('neg', a) | ('sel', cond, a, b)"""
    e = tu.strip(e)
    if e is None or depth > 25:
        raise _NoForm('?')
    k = e.get('kind')
    if k == 'DeclRefExpr':
        d = e['referencedDecl'].get('id')
        if d in env:
            return env[d]
        raise _NoForm('value of `%s` not tracked' % e['referencedDecl'].get('name'))
    if k == 'ConditionalOperator':
        c, a, b = tu.kids(e)
        return ('sel', c, _vterm(tu, a, env, depth + 1), _vterm(tu, b, env, depth + 1))
    if k in ('CXXConstructExpr', 'CXXTemporaryObjectExpr', 'CXXFunctionalCastExpr'):
        ks = tu.kids(e)
        if len(ks) == 1:
            return _vterm(tu, ks[0], env, depth + 1)
        if len(ks) == 3:
            comps = []
            for x in ks:
                names = [y.get('referencedDecl', {}).get('name') for y in tu.walk(x) if y.get('kind') == 'DeclRefExpr']
                c = _scalar_const(tu, x)
                comps.append(1 if 'one' in names or c == 1.0 else 0 if 'zero' in names or c == 0.0 else None)
            if None not in comps and sorted(comps) == [0, 0, 1]:
                return ('e', comps.index(1))
        raise _NoForm(tu.show(e))
    if k in ('CallExpr', 'CXXOperatorCallExpr'):
        sd, obj, args = tu.call_parts(e)
        name = sd.get('q', '').split('::')[-1]
        if name == 'cross' and len(args) == 2:
            return ('cross', _vterm(tu, args[0], env, depth + 1), _vterm(tu, args[1], env, depth + 1))
        if name in ('normalize',) and len(args) == 1:
            return ('norm', _vterm(tu, args[0], env, depth + 1))
        if name == 'operator-' and len(args) == 1:
            return ('neg', _vterm(tu, args[0], env, depth + 1))
        h = _single_return(tu, e)
        if h is not None and obj is None:
            fn, ret = h
            env2 = {}
            for pp, a in zip(fn['params'], args):
                try:
                    env2[pp['id']] = _vterm(tu, a, env, depth + 1)
                except _NoForm:
                    pass
            return _vterm(tu, ret, env2, depth + 1)
        h = _select_return(tu, e)
        if h is not None and obj is None:
            # a helper of the form `if (c) return a; return b;`: the selection c ? a : b, its condition read in the helper's scope
            fn, c, ra, rb = h
            env2 = {}
            for pp, a in zip(fn['params'], args):
                try:
                    env2[pp['id']] = _vterm(tu, a, env, depth + 1)
                except _NoForm:
                    pass
            _SEL_ENV[tu.strip(c)['id']] = env2
            return ('sel', c, _vterm(tu, ra, env2, depth + 1), _vterm(tu, rb, env2, depth + 1))
    raise _NoForm(tu.show(e))


_SEL_ENV = {}       # id of a selection condition that lives in a helper -> the helper's parameter bindings


def _select_return(tu, call):
    """(function, condition, value if true, value if false) when the callee's body is `if (c) return a; [else] return b;`"""
    fn = tu.callee_fn(call)
    if fn is None or fn.get('dep') or tu.body(fn) is None:
        return None
    st = [x for x in tu.kids(tu.body(fn)) if x.get('kind') not in ('NullStmt',)]

    def ret_of(x):
        if x is None:
            return None
        if x.get('kind') == 'CompoundStmt' and len(tu.kids(x)) == 1:
            x = tu.kids(x)[0]
        if x.get('kind') == 'ReturnStmt' and tu.kids(x):
            return tu.kids(x)[0]
        return None
    if not st or st[0].get('kind') != 'IfStmt':
        return None
    ks = tu.kids(st[0])
    if len(ks) == 2 and len(st) == 2:
        a, b = ret_of(ks[1]), ret_of(st[1])
    elif len(ks) == 3 and len(st) == 1:
        a, b = ret_of(ks[1]), ret_of(ks[2])
    else:
        return None
    if a is None or b is None:
        return None
    return fn, ks[0], a, b


def _perp(t, n):
    """t is orthogonal to n for every value of the inputs"""
    if t[0] == 'cross':
        return t[1] == n or t[2] == n
    if t[0] in ('norm', 'neg'):
        return _perp(t[1], n)
    if t[0] == 'sel':
        return _perp(t[2], n) and _perp(t[3], n)
    return False


def _is_unit(t):
    return t[0] == 'norm' or (t[0] == 'neg' and _is_unit(t[1])) or (t[0] == 'sel' and _is_unit(t[2]) and _is_unit(t[3]))


def check_frame(ctx, tu):
    """frame(N): returned axes (X, Y, N) with X a normalised vector orthogonal to N (a cross product with N, possibly a selection between
    two), chosen so that it cannot vanish (the longer of cross(e_i, N), cross(e_j, N), i != j: the squared lengths add up to >= 1), and
    Y = [normalize] cross(N, X): then X, Y, N are orthonormal and det = +1.  frame(N, up) either delegates to frame(N) or has the same form."""
    R = 'R-C06-frame'
    ctx.describe(R, 'frame(): third axis is N, first axis is a normalised vector orthogonal to N that cannot vanish, second axis is cross(N, first) '
                    '(orthonormal, right-handed)')
    n = 0
    for f in sorted(tu.functions.values(), key=lambda x: x['fty']):
        if f['dep'] or f['q'] != 'rkcommon::math::frame' or tu.body(f) is None:
            continue
        n += 1
        inst = 'frame %s' % f['fty'].replace('rkcommon::math::', '')
        key = '%s|rkcommon/math/LinearSpace.h|frame/%d|' % (R, len(f['params']))
        env = {p['id']: ('p', i) for i, p in enumerate(f['params'])}
        N = ('p', 0)
        body = tu.body(f)
        und = None
        for v in tu.walk(body):
            if v.get('kind') == 'VarDecl' and tu.kids(v) and v['id'] not in env:
                try:
                    env[v['id']] = _vterm(tu, tu.kids(v)[-1], env)
                except _NoForm:
                    pass
        rets = [x for x in tu.walk(body) if x.get('kind') == 'ReturnStmt']
        bad = False
        for r in rets:
            e = tu.strip(tu.kids(r)[0]) if tu.kids(r) else None
            while e is not None and e.get('kind') in ('CXXConstructExpr', 'CXXTemporaryObjectExpr', 'CXXFunctionalCastExpr') and len(tu.kids(e)) == 1:
                e = tu.strip(tu.kids(e)[0])
            if e is None:
                und = 'return without a value'
                break
            if e.get('kind') == 'CallExpr' and tu.sd(e).get('q') == 'rkcommon::math::frame':
                args = tu.call_parts(e)[2]
                try:
                    if len(args) == 1 and _vterm(tu, args[0], env) == N:
                        ctx.ok(R, inst + ' @' + tu.loc(r), 'delegates to frame(N)', tu.loc(r), nontrivial=False)
                        continue
                except _NoForm:
                    pass
                und = 'delegation `%s` not to frame(N)' % tu.show(e)
                break
            renv = env
            hops = 0
            while e is not None and e.get('kind') in ('CallExpr', 'CXXMemberCallExpr') and hops < 4:
                # a helper that builds the frame: bind its parameters, evaluate its locals, continue at its single return
                hops += 1
                fn = tu.callee_fn(e)
                if fn is None or fn.get('dep') or tu.body(fn) is None:
                    break
                hrets = [x for x in tu.walk(tu.body(fn)) if x.get('kind') == 'ReturnStmt']
                if len(hrets) != 1 or not tu.kids(hrets[0]):
                    break
                env2 = {}
                try:
                    for pp, a in zip(fn['params'], tu.call_parts(e)[2]):
                        env2[pp['id']] = _vterm(tu, a, renv)
                except _NoForm:
                    break
                for v in tu.walk(tu.body(fn)):
                    if v.get('kind') == 'VarDecl' and tu.kids(v):
                        try:
                            env2[v['id']] = _vterm(tu, tu.kids(v)[-1], env2)
                        except _NoForm:
                            pass
                renv = env2
                e = tu.strip(tu.kids(hrets[0])[0])
                while e is not None and e.get('kind') in ('CXXConstructExpr', 'CXXTemporaryObjectExpr', 'CXXFunctionalCastExpr') and len(tu.kids(e)) == 1:
                    e = tu.strip(tu.kids(e)[0])
            if e is None or e.get('kind') not in ('CXXConstructExpr', 'CXXTemporaryObjectExpr') or len(tu.kids(e)) != 3:
                und = 'returned value `%s` is not LinearSpace3(x, y, z)' % tu.show(e)[:80]
                break
            try:
                X, Y, Z = (_vterm(tu, a, renv) for a in tu.kids(e))
            except _NoForm as ex:
                und = 'axis not in the vector-term fragment: %s' % str(ex)[:100]
                break
            if Z != N:
                ctx.violation(R, inst, 'the third axis of the returned frame is not the normal N', tu.loc(r), key=key + 'third-axis')
                bad = True
                continue
            if not _is_unit(X):
                und = 'first axis is not a normalised vector'
                break
            if not _perp(X, N):
                ctx.violation(R, inst, 'the first axis `%s` is not a cross product with N: it is not orthogonal to the normal' % tu.show(tu.kids(e)[0]),
                              tu.loc(r), key=key + 'first-axis-not-orthogonal')
                bad = True
                continue
            # non-vanishing: a bare cross(e_i, N) vanishes for N = e_i
            core = X[1] if X[0] == 'norm' else X

            def comp(x):
                """('abs'|'raw', axis index) of |N.c|, N.c*N.c or N.c"""
                x = tu.strip(x, casts=True)
                names = 'xyz'
                if x.get('kind') == 'MemberExpr' and x.get('name') in names and tu.kids(x):
                    for scope in (renv, env):
                        try:
                            if _vterm(tu, tu.kids(x)[0], scope) == N:
                                return ('raw', names.index(x['name']))
                        except _NoForm:
                            pass
                    return None
                if x.get('kind') == 'CallExpr' and tu.sd(x).get('q', '').split('::')[-1] in ('abs', 'fabs') and len(tu.kids(x)) == 2:
                    r = comp(tu.kids(x)[1])
                    return ('abs', r[1]) if r else None
                if x.get('kind') == 'BinaryOperator' and x.get('opcode') == '*':
                    a, b = (comp(y) for y in tu.kids(x))
                    if a and b and a == b and a[0] == 'raw':
                        return ('abs', a[1])
                return None

            def axis_verdict(c, iA, iB):
                """the condition c chooses between coordinate axes iA (true) and iB (false) to cross with N: 'ok' when the chosen axis is
                the one with the smaller |component| of N, 'leans' when it is the larger, 'signed' when raw components are compared"""
                if iA == iB or c.get('kind') != 'BinaryOperator' or c.get('opcode') not in ('>', '>=', '<', '<='):
                    return None
                l, r2 = (comp(x) for x in tu.kids(c))
                if l and r2 and l[1] != r2[1] and {l[1], r2[1]} == {iA, iB}:
                    big, small = (l, r2) if c['opcode'] in ('>', '>=') else (r2, l)     # condition true: |big| > |small|
                    if l[0] == 'abs' and r2[0] == 'abs':
                        return 'ok' if (iA == small[1] and iB == big[1]) else 'leans'
                    if l[0] == 'raw' and r2[0] == 'raw':
                        return 'signed'
                return None

            def report_axis(verdict, c, iA):
                if verdict == 'signed':
                    ctx.violation(R, inst, 'the helper axis is chosen by comparing signed components `%s`: for N = -e_%s the comparison picks the axis '
                                  'parallel to N, cross(axis, N) is the zero vector and normalize() of it is not a unit vector' % (
                                      tu.show(c)[:60], 'xyz'[iA]), tu.loc(r), key=key + 'selects-by-signed-component')
                else:
                    ctx.violation(R, inst, 'the selection `%s` chooses the coordinate axis N leans on MOST: for N along that axis cross(axis, N) vanishes'
                                  % tu.show(c)[:60], tu.loc(r), key=key + 'selects-shorter')

            if core[0] == 'sel':
                c = tu.strip(core[1])
                A, B = core[2], core[3]
                okc = None
                if c.get('kind') == 'BinaryOperator' and c.get('opcode') in ('>', '>=', '<', '<='):
                    def sq(x):
                        x = tu.strip(x)
                        if x.get('kind') == 'CallExpr' and tu.sd(x).get('q', '').split('::')[-1] == 'dot' and len(tu.kids(x)) == 3:
                            try:
                                cenv = _SEL_ENV.get(c['id'], env)       # the condition lives in the caller's scope, or in a followed helper's
                                a, b = (_vterm(tu, y, cenv) for y in tu.kids(x)[1:])
                                return a if a == b else None
                            except _NoForm:
                                return None
                        return None
                    l, r2 = (sq(x) for x in tu.kids(c))
                    if c['opcode'] in ('<', '<='):
                        l, r2 = r2, l
                    if l is not None and r2 is not None:
                        okc = (l == A and r2 == B)       # condition true <=> |l| larger; the true branch must be l
                        rev = (l == B and r2 == A)
                        axes = lambda t: t[0] == 'cross' and ((t[1][0] == 'e' and t[2] == N) or (t[2][0] == 'e' and t[1] == N))
                        if not (axes(A) and axes(B)) or (A[1] if A[1][0] == 'e' else A[2]) == (B[1] if B[1][0] == 'e' else B[2]):
                            okc = None if not rev else okc
                            und = und or 'candidates of the selection are not cross products of N with two different coordinate axes'
                        elif rev:
                            ctx.violation(R, inst, 'the selection `%s` keeps the SHORTER of the two candidates: for N along a coordinate axis it '
                                          'is the zero vector and normalize() of it is not a unit vector' % tu.show(c)[:120], tu.loc(r),
                                          key=key + 'selects-shorter')
                            bad = True
                            continue
                if okc is None and und is None:
                    axes = lambda t: t[0] == 'cross' and ((t[1][0] == 'e' and t[2] == N) or (t[2][0] == 'e' and t[1] == N))
                    if axes(A) and axes(B):
                        iA, iB = ((t[1] if t[1][0] == 'e' else t[2])[1] for t in (A, B))
                        verdict = axis_verdict(c, iA, iB)
                        if verdict in ('signed', 'leans'):
                            report_axis(verdict, c, iA)
                            bad = True
                            continue
                        if verdict == 'ok':
                            okc = True
                if okc is None and und is None:
                    und = 'selection condition `%s` not recognised' % tu.show(c)[:100]
                if und:
                    break
            elif core[0] == 'cross' and ((core[1][0] == 'sel' and core[2] == N) or (core[2][0] == 'sel' and core[1] == N)):
                # cross(axis chosen by a test on N's components, N): the chosen axis must be one N does not lean on
                sel = core[1] if core[1][0] == 'sel' else core[2]
                c = tu.strip(sel[1])
                A, B = sel[2], sel[3]
                verdict = axis_verdict(c, A[1], B[1]) if (A[0] == 'e' and B[0] == 'e') else None
                if verdict in ('signed', 'leans'):
                    report_axis(verdict, c, A[1])
                    bad = True
                    continue
                if verdict is None:
                    und = 'axis selection `%s` not recognised' % tu.show(c)[:80]
                    break
            elif core[0] == 'cross' and (core[1][0] == 'e' or core[2][0] == 'e'):
                ctx.violation(R, inst, 'the first axis is cross(axis, N) for one fixed coordinate axis: it vanishes when N is parallel to that axis',
                              tu.loc(r), key=key + 'degenerate')
                bad = True
                continue
            Yc = Y[1] if Y[0] == 'norm' else Y
            if Yc == ('cross', N, X):
                ctx.ok(R, inst + ' @' + tu.loc(r), 'axes (x, cross(N, x), N) with x a non-vanishing normalised vector orthogonal to N', tu.loc(r))
            elif Yc == ('cross', X, N):
                ctx.violation(R, inst, 'the second axis is cross(x, N) instead of cross(N, x): the frame is left-handed (det = -1)', tu.loc(r),
                              key=key + 'left-handed')
                bad = True
            else:
                und = 'second axis `%s` is not cross(N, first axis)' % tu.show(tu.kids(e)[1])[:80]
                break
        if und and not bad:
            ctx.undecided(R, inst, und, tu.fn_loc(f))
    ctx.floor(R, n, 3, 'frame(N) for vec3f/vec3d/vec3fa and frame(N, up)')


# ============================================================================================
#  purity: no mutable static state in the transform headers
# ============================================================================================
PURE_HEADERS = ('rkcommon/math/LinearSpace.h', 'rkcommon/math/AffineSpace.h', 'rkcommon/math/Quaternion.h')


def _static_state(tu, files):
    """(VarDecl, function record) for every non-const variable with static / thread storage duration that is local to a function defined
    in `files` (template patterns and their instantiations included)"""
    out = []
    for n in tu.nodes.values():
        if n.get('kind') != 'VarDecl' or not (n.get('storageClass') == 'static' or n.get('tls')):
            continue
        qt = n.get('type', {}).get('qualType', '')
        if re.match(r'^const\b', qt) or n.get('constexpr'):
            continue
        f = None
        cur = tu.par(n)
        for _ in range(60):
            if cur is None:
                break
            if cur.get('id') in tu.functions:
                f = tu.functions[cur['id']]
                break
            cur = tu.par(cur)
        if f is not None and any(tu.fn_file(f) == x or tu.fn_file(f).endswith('/' + x) for x in files):
            out.append((n, f))
    return out


def check_purity(ctx, tu):
    R = 'R-C06-pure'
    ctx.describe(R, 'rotate / xfm* / frame / slerp / orthogonal compute their result from their arguments only: no function of the transform '
                    'headers (templates included) keeps a non-const function-local static or thread-local variable (such state makes a result depend on earlier calls and races between threads)')
    found = _static_state(tu, PURE_HEADERS)
    for n, f in found:
        fn = f['q'].replace('rkcommon::math::', '')
        ctx.violation(R, '%s in %s' % (n.get('name', '?'), fn),
                      'mutable variable `%s` (%s) with static storage duration in function `%s`: the transform is no longer a function of '
                      'its arguments - the value seen depends on earlier calls, and concurrent callers race on it' % (
                          n.get('name', '?'), n.get('type', {}).get('qualType', ''), fn), tu.fn_loc(f),
                      key='%s|%s|%s|static-state' % (R, tu.fn_file(f), fn.split('<')[0]))
    if not found:
        nf = sum(1 for f in tu.functions.values() if any(tu.fn_file(f) == h for h in PURE_HEADERS))
        ctx.ok(R, 'transform headers', 'no mutable static / thread-local state in %s (%d function definitions in this unit)' % (
            ', '.join(h.split('/')[-1] for h in PURE_HEADERS), nf), PURE_HEADERS[0])
    # self-check on the driver's own examples
    own = sorted(n.get('name') for n, f in _static_state(tu, (SHAPE_DRIVER,)))
    if own != ['last_r', 'last_s']:
        ctx.broken('%s self-check: expected exactly last_r, last_s to be reported on %s, got %s' % (R, SHAPE_DRIVER, own))


# ============================================================================================
#  R-C06-pole / R-C06-transl / R-C06-align: three structural clauses of the transform headers
# ============================================================================================
MATH_HEADERS_PREFIX = 'rkcommon/math/'


def _hdr_fns(tu, files=None, prefix=None):
    for f in tu.functions.values():
        ff = tu.fn_file(f)
        if (files and any(ff == x or ff.endswith('/' + x) for x in files)) or (prefix and ff.startswith(prefix)):
            if tu.body(f) is not None:
                yield f


def _opname(tu, n):
    """(operator, operands) of a built-in binary/unary operator, an overloaded one, or the unresolved form it has inside a template"""
    k = n.get('kind')
    if k == 'BinaryOperator':
        return n.get('opcode'), tu.kids(n)
    if k == 'UnaryOperator':
        return 'u' + n.get('opcode', ''), tu.kids(n)
    if k == 'CXXOperatorCallExpr':
        ks = tu.kids(n)
        if ks:
            c = tu.strip(ks[0], casts=True)
            nm = (c or {}).get('name') or (tu.sd(n).get('q', '') or '').split('::')[-1]
            if not nm and c is not None and c.get('kind') == 'DeclRefExpr':
                nm = c.get('referencedDecl', {}).get('name', '')
            if nm and nm.startswith('operator'):
                op = nm[len('operator'):]
                return ('u' + op if len(ks) == 2 else op), ks[1:]
    return None, []


def _callee_name(tu, n):
    if n.get('kind') != 'CallExpr':
        return None
    q = tu.sd(n).get('q')
    if q:
        return q.split('::')[-1]
    ks = tu.kids(n)
    c = tu.strip(ks[0], casts=True) if ks else None
    if c is not None and c.get('kind') in ('UnresolvedLookupExpr', 'DeclRefExpr'):
        return c.get('name') or c.get('referencedDecl', {}).get('name')
    return None


def _interval(tu, e, depth=0):
    """(lo, hi, uses_trig) of a scalar expression built from literals, sin/cos values, + - * and single-assignment locals; None otherwise"""
    e = tu.strip(e, casts=True)
    if e is None or depth > 12:
        return None
    k = e.get('kind')
    cv = tu.sd(e).get('cv')
    if k in ('IntegerLiteral', 'FloatingLiteral'):
        try:
            v = float(e.get('value'))
        except (TypeError, ValueError):
            return None
        return (v, v, False)
    if cv is not None:
        try:
            return (float(cv), float(cv), False)
        except ValueError:
            pass
    if k == 'ParenExpr':
        return _interval(tu, tu.kids(e)[0], depth + 1)
    if k in ('CXXFunctionalCastExpr', 'CXXStaticCastExpr', 'CStyleCastExpr', 'CXXUnresolvedConstructExpr', 'CXXConstructExpr', 'InitListExpr') \
            and len(tu.kids(e)) == 1:
        return _interval(tu, tu.kids(e)[0], depth + 1)
    if k == 'CallExpr':
        nm = _callee_name(tu, e)
        if nm in ('sin', 'cos', 'sinf', 'cosf'):
            # only an angle that is a parameter of the function (its domain is the stated one) and that no branch condition restricts
            args = tu.kids(e)[1:]
            d = tu.nodes.get(tu.ref_decl(args[0])) if args else None
            if d is None or d.get('kind') != 'ParmVarDecl':
                return None
            fn = tu.par(d)
            for x in (tu.walk(fn) if fn is not None else []):
                if x.get('kind') in ('IfStmt', 'ConditionalOperator', 'WhileStmt', 'ForStmt') and tu.kids(x) and \
                        any(tu.ref_decl(y) == d['id'] for y in tu.walk(tu.kids(x)[0]) if y.get('kind') == 'DeclRefExpr'):
                    return None
            return (-1.0, 1.0, True)
        return None
    if k == 'DeclRefExpr':
        d = tu.nodes.get(e.get('referencedDecl', {}).get('id'))
        if d is not None and d.get('kind') == 'VarDecl' and tu.kids(d):
            # single assignment: no other write in the enclosing function
            fn = tu.par(d)
            for _ in range(40):
                if fn is None or fn.get('id') in tu.functions:
                    break
                fn = tu.par(fn)
            if fn is not None:
                for x in tu.walk(fn):
                    op, ops = _opname(tu, x)
                    if op in ('=', '+=', '-=', '*=', '/=', 'u++', 'u--') and ops and tu.ref_decl(ops[0]) == d['id']:
                        return None
            init = [x for x in tu.kids(d) if not x.get('kind', '').endswith('Attr')]
            return _interval(tu, init[-1], depth + 1) if init else None
        return None
    op, ops = _opname(tu, e)
    if op in ('+', '-', '*') and len(ops) == 2:
        a, b = _interval(tu, ops[0], depth + 1), _interval(tu, ops[1], depth + 1)
        if a is None or b is None:
            return None
        if op == '+':
            return (a[0] + b[0], a[1] + b[1], a[2] or b[2])
        if op == '-':
            return (a[0] - b[1], a[1] - b[0], a[2] or b[2])
        ps = [x * y for x in a[:2] for y in b[:2]]
        return (min(ps), max(ps), a[2] or b[2])
    if op == 'u-' and len(ops) == 1:
        a = _interval(tu, ops[0], depth + 1)
        return None if a is None else (-a[1], -a[0], a[2])
    return None


def pole_sites(tu, fns):
    """[(function, node, verdict, text)] for each division (or rcp) in the functions whose denominator is built from constants and sin/cos
    values only: 'bad' when the range of the denominator contains 0"""
    out = []
    for f in fns:
        for n in tu.walk(tu.body(f)):
            op, ops = _opname(tu, n)
            den = None
            if op in ('/', '/=') and len(ops) == 2:
                den = ops[1]
            elif n.get('kind') == 'CallExpr' and _callee_name(tu, n) in ('rcp', 'rcp_safe') and len(tu.kids(n)) >= 2:
                den = tu.kids(n)[1]
            if den is None:
                continue
            iv = _interval(tu, den)
            if iv is None or not iv[2]:
                continue
            if iv[0] <= 0.0 <= iv[1]:
                out.append((f, n, 'bad', 'the denominator `%s` takes every value in [%g, %g] as the angle runs through its domain, 0 included: '
                            'the result has a pole at that angle (inf/NaN entries there, and a relative error that grows without bound next to it)' % (
                                tu.show(den)[:60], iv[0], iv[1])))
            else:
                out.append((f, n, 'ok', 'the denominator `%s` stays in [%g, %g]' % (tu.show(den)[:60], iv[0], iv[1])))
    return out


def arc_sites(tu, fns):
    """[(function, node, verdict, text)] for each acos / asin in the functions: 'bad' when the argument is an input of the function (a
    parameter or a component of one) that no branch condition, min / max / clamp restricts: rounding puts a unit quantity a few ulp
    outside [-1, 1] (NaN), and next to +-1 the derivative of acos is unbounded (the angle loses half its digits)"""
    out = []
    for f in fns:
        fd = tu.nodes.get(f['id'])
        params = {x['id'] for x in (tu.kids(fd) if fd is not None else []) if x.get('kind') == 'ParmVarDecl'}
        body = tu.body(f)
        for n in tu.walk(body):
            if n.get('kind') != 'CallExpr' or _callee_name(tu, n) not in ('acos', 'asin', 'acosf', 'asinf'):
                continue
            args = tu.kids(n)[1:]
            if not args:
                continue
            a = tu.strip(args[0], casts=True)
            roots = set()
            clamped = False
            for y in tu.walk(a):
                if y.get('kind') == 'CallExpr' and _callee_name(tu, y) in ('min', 'max', 'clamp'):
                    clamped = True
                if y.get('kind') == 'DeclRefExpr':
                    d = tu.nodes.get(y.get('referencedDecl', {}).get('id'))
                    # follow single-assignment locals one step
                    if d is not None and d.get('kind') == 'VarDecl' and tu.kids(d):
                        for z in tu.walk(tu.kids(d)[-1]):
                            if z.get('kind') == 'CallExpr' and _callee_name(tu, z) in ('min', 'max', 'clamp'):
                                clamped = True
                            if z.get('kind') == 'DeclRefExpr':
                                roots.add(z.get('referencedDecl', {}).get('id'))
                    roots.add(y.get('referencedDecl', {}).get('id'))
            guarded = False
            locals_ = {y.get('referencedDecl', {}).get('id') for y in tu.walk(a) if y.get('kind') == 'DeclRefExpr'}
            for x in tu.walk(body):
                if x.get('kind') in ('IfStmt', 'ConditionalOperator', 'WhileStmt') and tu.kids(x):
                    if any(y.get('kind') == 'DeclRefExpr' and y.get('referencedDecl', {}).get('id') in (roots | locals_)
                           for y in tu.walk(tu.kids(x)[0])):
                        guarded = True
            if clamped or guarded:
                out.append((f, n, 'ok', '`%s`: the argument is clamped or restricted by a branch condition' % tu.show(n)[:50]))
            elif roots & params and len(roots) <= 2:
                out.append((f, n, 'bad', '`%s` takes the arc function of an input component that nothing restricts to [-1, 1]: for a unit quantity '
                            'rounding gives values like 1 + 1 ulp (acos is NaN), and next to +-1 - the identity rotation, small angles - the '
                            'angle comes out with an error of sqrt(eps); a zero axis extracted alongside is then normalised to NaN' % tu.show(n)[:50]))
            else:
                out.append((f, n, 'skip', '`%s`: argument not traced to an input' % tu.show(n)[:50]))
    return out


def transl_sites(tu, fns):
    """[(function, node, verdict, text)] for xfmVector / xfmNormal taking an affine space: 'bad' where the translation member `p` of that
    argument is read, or the whole argument is handed to a function of the headers that reads it"""
    out = []
    allf = list(fns)

    def affine_param(f):
        b = tu.body(f)
        fd = tu.nodes.get(f['id'])
        for x in (tu.kids(fd) if fd is not None else []):
            if x.get('kind') == 'ParmVarDecl' and 'AffineSpace' in x.get('type', {}).get('qualType', ''):
                return x
        return None

    def reads_p(f, pid, seen):
        """does f read member p of its parameter pid, directly or through a callee that gets the whole parameter?"""
        if f['id'] in seen:
            return None
        seen.add(f['id'])
        for n in tu.walk(tu.body(f)):
            if n.get('kind') in ('MemberExpr', 'CXXDependentScopeMemberExpr') and (n.get('name') or n.get('member')) == 'p':
                base = tu.kids(n)
                if base and tu.ref_decl(base[0]) == pid:
                    return n
            if n.get('kind') in ('CallExpr', 'CXXOperatorCallExpr', 'CXXConstructExpr'):
                args = tu.kids(n)[1:] if n.get('kind') != 'CXXConstructExpr' else tu.kids(n)
                for i, a in enumerate(args):
                    if tu.ref_decl(a) == pid:
                        nm = _callee_name(tu, n) if n.get('kind') == 'CallExpr' else None
                        cf = tu.callee_fn(n)
                        cands = [cf] if cf is not None and tu.body(cf) is not None else \
                            [g for g in allf if nm and g['q'].split('::')[-1] == nm and g['id'] != f['id']]
                        for g in cands:
                            gp = affine_param(g)
                            if gp is not None and reads_p(g, gp['id'], seen) is not None:
                                return n
        return None

    for f in allf:
        nm = f['q'].split('::')[-1]
        if nm not in ('xfmVector', 'xfmNormal'):
            continue
        ap = affine_param(f)
        if ap is None:
            continue
        w = reads_p(f, ap['id'], set())
        if w is not None:
            out.append((f, w, 'bad', '`%s` of an affine space uses the translation of its argument (`%s`): a direction / normal transform is the '
                        'linear part only; bringing the translation in and cancelling it again costs an absolute error of eps*|p|, '
                        'unrelated to the size of the transformed vector' % (nm, tu.show(w)[:50])))
        else:
            out.append((f, tu.body(f), 'ok', '`%s` uses the linear part of its affine argument only' % nm))
    return out


ALIGNED_ACCESS = re.compile(r'^_mm(256|512)?_(load|store|stream)_(ps|pd|si128|si256|si512|epi32|epi64)$')


def align_sites(tu, fns):
    """[(function, node, verdict, text)] for each aligned load/store intrinsic: 'bad' when the address is a member of an rkcommon record
    reached from a parameter / this / a local without an alignment attribute and no record on the way declares one"""
    out = []
    for f in fns:
        for n in tu.walk(tu.body(f)):
            if n.get('kind') != 'CallExpr':
                continue
            nm = _callee_name(tu, n) or ''
            m = ALIGNED_ACCESS.match(nm)
            if not m:
                continue
            args = tu.kids(n)[1:]
            if not args:
                continue
            a = tu.strip(args[0], casts=True)
            if a is not None and a.get('kind') == 'UnaryOperator' and a.get('opcode') == '&':
                a = tu.strip(tu.kids(a)[0], casts=True)
            need = {'': 16, '256': 32, '512': 64}[m.group(1) or '']
            aligned = False
            cur = a
            root = None
            while cur is not None:
                k = cur.get('kind')
                if k == 'MemberExpr':
                    fd = tu.nodes.get(cur.get('referencedMemberDecl'))
                    rec = tu.par(fd) if fd is not None else None
                    for x in (fd, rec):
                        if x is not None and any(y.get('kind') == 'AlignedAttr' for y in x.get('inner', [])):
                            aligned = True
                    cur = tu.strip(tu.kids(cur)[0], casts=True) if tu.kids(cur) else None
                elif k == 'ArraySubscriptExpr':
                    cur = tu.strip(tu.kids(cur)[0], casts=True)
                elif k == 'DeclRefExpr':
                    root = tu.nodes.get(cur.get('referencedDecl', {}).get('id'))
                    break
                elif k == 'CXXThisExpr':
                    root = cur
                    break
                else:
                    break
            if root is None:
                out.append((f, n, 'skip', 'address `%s` not followed' % tu.show(args[0])[:50]))
                continue
            qt = root.get('type', {}).get('qualType', '')
            if any(y.get('kind') == 'AlignedAttr' for y in root.get('inner', [])) or '__m' in qt:
                aligned = True
            if root.get('kind') != 'CXXThisExpr' and re.search(r'\*\s*(const)?\s*$', qt) and (a is None or a.get('kind') == 'DeclRefExpr'):
                out.append((f, n, 'skip', 'address comes from the pointer `%s`' % root.get('name')))
                continue
            if aligned:
                out.append((f, n, 'ok', '`%s`: the object carries an alignment attribute' % tu.show(args[0])[:50]))
            else:
                out.append((f, n, 'bad', '`%s` requires a %d-byte aligned address, but `%s` is a plain member / variable of a type that declares no '
                            'alignment (rkcommon pads vec3fa to 16 bytes, it does not align it: alignof is 4): the access faults for an '
                            'object at an address that is not a multiple of %d (record member, packed array element)' % (
                                nm, need, tu.show(args[0])[:50], need)))
    return out


def _is_one(tu, e, depth=0):
    e = tu.strip(e, casts=True)
    if e is None or depth > 3:
        return False
    while e.get('kind') in ('CXXFunctionalCastExpr', 'CStyleCastExpr', 'CXXStaticCastExpr', 'ParenExpr', 'ImplicitCastExpr', 'CXXConstructExpr',
                            'MaterializeTemporaryExpr', 'InitListExpr') and len(tu.kids(e)) == 1:
        e = tu.strip(tu.kids(e)[0], casts=True)
        if e is None:
            return False
    if e.get('kind') in ('IntegerLiteral', 'FloatingLiteral'):
        try:
            return float(e.get('value')) == 1.0
        except (TypeError, ValueError):
            return False
    cv = tu.sd(e).get('cv')
    if cv is not None:
        try:
            return float(cv) == 1.0
        except (TypeError, ValueError):
            return False
    return False


def rcpdet_sites(tu, fns):
    """For every function given that calls a member `det()`: where does the determinant go?  -> (function, node, verdict, text) with verdict
    'bad' (its reciprocal is formed: `1 / det`, `rcp(det)`, also inside a callee that receives it), 'ok' (it only ever divides a non-constant
    numerator) or 'skip'."""
    out = []
    for f in fns:
        body = tu.body(f)
        if f.get('dep') or body is None:
            continue
        dets = [x for x in tu.walk(body) if x.get('kind') in ('CXXMemberCallExpr', 'CallExpr') and
                (tu.sd(x).get('q', '').endswith('::det') or tu.sd(x).get('q', '') == 'rkverif_c06::det_of')]
        if not dets:
            continue
        res = {'bad': [], 'ok': [], 'skip': []}

        def use(fn, node, depth):
            """classify the use of the value `node` (an expression inside fn)"""
            cur = node
            par = tu.par(cur)
            while par is not None and par.get('kind') in ('ImplicitCastExpr', 'ParenExpr', 'MaterializeTemporaryExpr', 'ExprWithCleanups',
                                                          'CXXBindTemporaryExpr', 'CXXFunctionalCastExpr', 'CXXStaticCastExpr', 'CStyleCastExpr'):
                cur, par = par, tu.par(par)
            if par is None:
                res['skip'].append((node, 'use not recognised'))
                return
            k = par.get('kind')
            if k == 'VarDecl':
                track(fn, par['id'], depth)
                return
            op = _opname(tu, par) if k in ('BinaryOperator', 'CXXOperatorCallExpr') else None
            if k == 'BinaryOperator' and par.get('opcode') == '/':
                ks = tu.kids(par)
                if ks[1].get('id') == cur.get('id'):
                    if _is_one(tu, ks[0]):
                        res['bad'].append((par, '`%s`' % tu.show(par)[:60]))
                    else:
                        res['ok'].append((par, 'divides `%s`' % tu.show(ks[0])[:40]))
                    return
            if k == 'CallExpr' and _callee_name(tu, par) in ('rcp', 'rcp_safe'):
                res['bad'].append((par, '`%s`' % tu.show(par)[:60]))
                return
            if k in ('CallExpr', 'CXXOperatorCallExpr', 'CXXMemberCallExpr', 'CXXConstructExpr') and depth < 4:
                cf = tu.callee_fn(par)
                sd, obj, args = tu.call_parts(par)
                idx = [i for i, a in enumerate(args) if a.get('id') == cur.get('id')]
                if cf is not None and tu.body(cf) is not None and idx and len(cf.get('params', [])) > idx[0]:
                    # a division operator with the determinant as the divisor: what the callee does with it decides
                    track(cf, cf['params'][idx[0]].get('id'), depth + 1)
                    return
            res['skip'].append((par, 'use `%s` not followed' % tu.show(par)[:50]))

        def track(fn, vid, depth):
            refs = [x for x in tu.walk(tu.body(fn)) if x.get('kind') == 'DeclRefExpr' and x.get('referencedDecl', {}).get('id') == vid]
            if not refs:
                res['skip'].append((tu.body(fn), 'value not used'))
            for r in refs:
                use(fn, r, depth)
        for d in dets:
            use(f, d, 0)
        if res['bad']:
            n, t = res['bad'][0]
            out.append((f, n, 'bad', 'the reciprocal of the determinant is formed (%s at %s) and then multiplied with the adjoint: for a '
                        'well-conditioned matrix with small entries (3x3 float, entries around 2^-45) det is still representable and '
                        'adjoint / det is an ordinary number, but 1 / det overflows to inf and the inverse becomes inf / NaN - M * inverse(M), '
                        'rcp(A) * A and xfmNormal are no longer the identity / the inverse transpose' % (t, tu.loc(n))))
        elif res['ok'] and not res['skip']:
            out.append((f, res['ok'][0][0], 'ok', 'the determinant only ever divides the adjoint\'s components (%d division(s))' % len(res['ok'])))
        else:
            out.append((f, (res['skip'] or res['ok'] or [(body, '')])[0][0], 'skip', (res['skip'] or [(None, 'no division by the determinant found')])[0][1]))
    return out


def check_structure(ctx, tu):
    RP, RT, RA, RC = 'R-C06-pole', 'R-C06-transl', 'R-C06-align', 'R-C06-arc'
    ctx.describe(RC, 'acos / asin in the transform headers is only applied to a value that a branch condition or a clamp keeps inside '
                     '[-1, 1] and away from the singular end points (a rotation is not re-derived from an unclamped quaternion component)')
    ctx.describe(RP, 'no division in the transform headers by an expression of sin/cos values whose range contains 0: rotate is defined for '
                     'every angle of the domain, half turns included')
    ctx.describe(RT, 'xfmVector / xfmNormal of an affine space never read its translation (directly or through xfmPoint): the result is the '
                     'linear part (inverse transpose) applied to the vector, independent of p')
    ctx.describe(RA, 'no aligned SIMD load/store intrinsic in rkcommon/math on an object whose type declares no alignment (vec3fa and the '
                     'spaces built from it are padded, not aligned)')
    RR = 'R-C06-range'
    ctx.describe(RR, 'inverse() divides the adjoint by the determinant; it never forms the reciprocal of the determinant (1 / det, rcp(det)), '
                     'directly or inside the division operator it uses: for an n x n matrix with entries of size s the determinant has size '
                     's^n and its reciprocal s^-n, which overflows for well-conditioned matrices whose inverse (size 1/s) is representable')
    pure = list(_hdr_fns(tu, files=PURE_HEADERS))
    inv = [f for f in pure if f['q'].split('::')[-1] == 'inverse' and not f.get('dep')]
    for R, sites, what, keyf in (
            (RR, rcpdet_sites(tu, inv), 'inverse() instantiations', 'reciprocal-of-determinant'),
            (RP, pole_sites(tu, pure), 'division by sin/cos expressions', 'pole-in-angle-domain'),
            (RT, transl_sites(tu, pure), 'xfmVector / xfmNormal overloads taking an affine space', 'reads-translation'),
            (RA, align_sites(tu, list(_hdr_fns(tu, prefix=MATH_HEADERS_PREFIX))), 'aligned load/store intrinsics', 'aligned-access-to-unaligned-type'),
            (RC, arc_sites(tu, pure), 'acos / asin calls', 'arc-function-of-unclamped-input')):
        nb = 0
        for f, n, v, why in sites:
            fn = f['q'].replace('rkcommon::math::', '')
            inst = '%s %s' % (fn, f['fty'][:80])
            if v == 'bad':
                nb += 1
                ctx.violation(R, inst, why, tu.loc(n) if tu.loc(n) != '?' else tu.fn_loc(f),
                              key='%s|%s|%s|%s' % (R, tu.fn_file(f), fn.split('<')[0], keyf))
            elif v == 'ok':
                ctx.ok(R, inst, why, tu.fn_loc(f))
            else:
                ctx.ok(R, inst, 'not decided here (%s)' % why, tu.fn_loc(f), nontrivial=False)
        if not sites:
            ctx.ok(R, 'transform headers', 'no %s in the parsed functions' % what, PURE_HEADERS[0], nontrivial=False)
    ctx.floor(RR, len(rcpdet_sites(tu, inv)), 2, 'instantiated LinearSpace2/3::inverse() in %s' % SHAPE_DRIVER)
    ctx.floor(RT, sum(1 for s_ in transl_sites(tu, pure)), 2, 'xfmVector / xfmNormal overloads for affine spaces (template patterns, AffineSpace.h)')
    # self-check on the driver's own examples
    own = [f for f in tu.functions.values() if f['q'].startswith('rkverif_c06::') and tu.body(f) is not None]
    got = {}
    for f, n, v, why in pole_sites(tu, own) + transl_sites(tu, own) + align_sites(tu, own) + arc_sites(tu, own) + rcpdet_sites(tu, own):
        got.setdefault(f['q'].split('::')[-1], set()).add(v)
    want = {'versine_pole': {'bad'}, 'versine_ok': {'ok'}, 'xfmVector': {'bad'}, 'xfmNormal': {'ok'}, 'load_padded': {'bad'},
            'load_aligned_local': {'ok'}, 'angle_unclamped': {'bad'}, 'angle_guarded': {'ok'}, 'inverse_by_reciprocal': {'bad'}, 'inverse_by_division': {'ok'}}
    got = {k: v for k, v in got.items() if k in want}
    if got != want:
        ctx.broken('R-C06-pole/transl/align self-check: verdicts on %s are %s, expected %s' % (SHAPE_DRIVER, got, want))


def run(ctx):
    R = 'R-C06'
    ctx.describe(R, 'lhs and rhs of the identity driver have the same exact rational-function normal form for every output '
                    'slot on every pair of consistent paths (or the __zero driver vanishes)')
    for a in ('real-number semantics of float operations (no rounding, no NaN/inf/-0)', 'denominators (det, |q|^2, |u|) are non-zero',
              'sin/cos of one argument satisfy sin^2+cos^2=1; sqrt(x)^2 = x', 'absence of undefined behaviour in the compiled drivers',
              'orthogonal(): the singular values of the input lie in [1/64, 64] (condition number <= 64 at unit scale), exact arithmetic'):
        ctx.assume(a)
    ir_units = []
    for vname, opts in variants(ctx):
        cfg = opts.pop('config', 'TBB')
        skip_approx = opts.pop('skip_approx', False)
        skip = set()
        try:
            ir = ctx.front.emit_ir(DRIVER, cfg, **opts)
        except AnalysisBroken as e:
            ctx.broken('%s [%s]: %s' % (DRIVER, vname, str(e)[:400]))
            continue
        ir_units.append({'unit': DRIVER, 'variant': vname, 'ir_lines': len(ir.splitlines())})
        mod = irnorm.Module(ir)
        pairs = sorted(set(m.group(1) for m in re.finditer(r'@(P\d+_\w+?)__lhs\(', ir)))
        zeros = sorted(set(m.group(1) for m in re.finditer(r'@(P\d+_\w+?)__zero\(', ir)))
        n = 0
        if skip_approx:
            for m in re.finditer(r'define[^\n]*@(P\d+_\w+?)__(?:lhs|rhs|zero)\((.*?)\n}\n', ir, re.S):
                if re.search(SIMD_APPROX_RE, m.group(2)):
                    skip.add(m.group(1))
            if len(skip) > SIMD_APPROX_MAX:
                ctx.undecided(R, 'identities [%s]' % vname, '%d identities go through the SIMD rcp/rsqrt estimates (%d on the pinned tree): too few '
                              'are left to compare in this configuration' % (len(skip), 7))
        for name in pairs + zeros:
            if name in skip:
                continue
            n += 1
            inst = '%s [%s]' % (name, vname)
            rule = '%s-%s' % (R, name.split('_')[0])
            ctx.rule_text.setdefault(rule, __doc__.split('  ' + name.split('_')[0] + ' ')[1].split('\n  P')[0].strip().replace('\n', ' ')
                                     if ('  ' + name.split('_')[0] + ' ') in __doc__ else '')
            key = '%s|%s|%s|identity' % (rule, 'rkcommon/math', name)
            A_undef = ()
            try:
                if name in zeros:
                    sa = mod.function(name + '__zero').summary()
                    A = sa.outs()
                    B = None
                else:
                    sa = mod.function(name + '__lhs').summary()
                    A = sa.outs()
                    B = mod.function(name + '__rhs').summary().outs()
                A_undef = sa.undef_slots()
            except KeyError as e:
                ctx.broken('%s: driver function missing: %s' % (inst, e))
                continue
            except irnorm.Undecided as e:
                if 'non-finite' in str(e):
                    # arithmetic on an uninitialised value (undef) is folded to a NaN constant by LLVM; an identity whose rkcommon side
                    # contains such a constant while the definition side does not computes from an indeterminate value
                    def nans(fname):
                        m = re.search(r'define[^\n]*@%s\(.*?\n}\n' % re.escape(fname), ir, re.S)
                        return len(re.findall(r'(?:float|double) 0x7FF8000000000000', m.group(0))) if m else 0
                    nl = nans(name + ('__zero' if name in zeros else '__lhs'))
                    nr = 0 if name in zeros else nans(name + '__rhs')
                    if nl and not nr:
                        ctx.violation(rule, inst, 'the rkcommon side of the identity computes with an indeterminate value: the compiler folded %d '
                                      'operation(s) on an uninitialised object (a member that no constructor path initialises) to NaN, while the '
                                      'definition side is an ordinary term of the inputs' % nl, DRIVER, key=key,
                                      path=['identity driver %s in %s' % (name, DRIVER), 'LLVM IR of the rkcommon side contains %d NaN constant(s)' % nl])
                        continue
                ctx.undecided(rule, inst, 'outside the IR fragment: %s' % str(e)[:200])
                continue
            elem = 8 if 'double' in vname else 4
            A = expand_ranges(A, elem)
            B = expand_ranges(B, elem) if B is not None else None
            slots = sorted(set(A) | set(B or {}))
            bad = None
            und = None
            for slot in slots:
                if slot not in A and slot in A_undef and (B is None or slot in B):
                    # the rkcommon side stores an `undef` value: the compiler proved that the result is computed from an object
                    # or vector lane that nothing on the path writes (e.g. the padding lane of a padded vec3 entering a sum)
                    bad = (slot, 'undef (computed from a never-written lane / member)', (B[slot][0][1] if B else 0))
                    break
                if B is not None and (slot not in A or slot not in B):
                    und = 'output slot %s is written by one side only' % slot
                    break
                try:
                    if B is None:
                        for g, t in A[slot]:
                            for g2, t2 in irnorm.cases(t, g):
                                if not irnorm.is_zero(t2, trig=True):
                                    if irnorm.opaque_atoms(t2):
                                        und = 'slot %s involves opaque atoms' % slot
                                    else:
                                        bad = (slot, t2, 0)
                                    break
                            if bad or und:
                                break
                    else:
                        ok, w = irnorm.equal_guarded(A[slot], B[slot], trig=True)
                        if not ok:
                            gA, tA, gB, tB = w
                            if irnorm.opaque_atoms(tA) or irnorm.opaque_atoms(tB):
                                und = 'slot %s involves opaque atoms' % slot
                            else:
                                bad = (slot, tA, tB)
                except irnorm.Undecided as e:
                    und = 'slot %s: %s' % (slot, str(e)[:160])
                if bad or und:
                    break
            if und:
                ctx.undecided(rule, inst, und)
            elif bad:
                slot, tA, tB = bad
                ctx.violation(rule, inst, 'the two sides of the identity differ in %s: rkcommon side = %s ; definition side = %s'
                              % (slot, str(tA)[:300], str(tB)[:300]), DRIVER, key=key,
                              path=['identity driver %s in %s' % (name, DRIVER), 'slot %s' % slot, 'lhs: %s' % str(tA)[:600], 'rhs: %s' % str(tB)[:600]])
            else:
                ctx.ok(rule, inst, '%d output slot(s) identical' % len(slots), DRIVER)
        ctx.floor('%s [%s]' % (R, vname), n, FLOOR - (SIMD_APPROX_MAX if skip_approx else 0), 'identity drivers in %s: 52 on the pinned tree' % DRIVER)
    tu = ctx.front.parse(SHAPE_DRIVER, 'TBB')
    check_branch_conditioning(ctx, tu)
    check_slerp(ctx, tu)
    check_orthogonal(ctx, tu)
    check_frame(ctx, tu)
    check_purity(ctx, tu)
    check_structure(ctx, tu)
    ctx.extra['ir_units'] = ir_units
    ctx.extra['programs'] = len(ir_units)
    ctx.extra['disagreements_checked'] = len(ctx.obl)
    from rkstatic import selftest
    selftest.run(ctx)
