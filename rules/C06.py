"""C06 - linear, affine and quaternion transforms obey their algebra and agree (exact-arithmetic clauses).

Every clause is an *identity driver* in drivers/alg_linalg.cpp: a pair of functions NAME__lhs / NAME__rhs that
compute the two sides of an identity - one through rkcommon's public API, the other from the definition in plain
scalar arithmetic or through an independent rkcommon route - or a single NAME__zero whose outputs must vanish.
The driver is compiled (never linked, never run) to LLVM IR with the repository's flags; rkstatic.irnorm maps
every output to a rational-function term over the inputs (the real compiler has done overload resolution,
conversions and inlining), and the two sides are compared by exact polynomial identity (sympy).  sin/cos of the
same argument are shared symbols with sin^2+cos^2 = 1; 1/sqrt(x) is sympy's own power, so normalised vectors have
unit length identically.

  P1   LinearSpace2: det, adjoint()*M = M*adjoint() = det*I, transposed, rows, M*inverse(M) = rcp(M)*M = I, M*v, (A*B)v = A(Bv)
  P2   LinearSpace3: det = Leibniz polynomial, adjoint()*M = M*adjoint() = det*I, transposed, rows, inverse, rcp
  P3   M*v = sum v_k col_k; (A*B)v = A(Bv); det(A*B) = det A det B (2x2, 3x3); xfmPoint/xfmVector(linear) = M*v;
       <xfmNormal(M,n), M v> = <n, v>  (inverse transpose)
  P4   affine: xfmPoint(a,p) = l*p + p0; xfmPoint(a*b,p) = xfmPoint(a, xfmPoint(b,p)); rcp(a)*a = identity; a(rcp(a) p) = p
  P5   xfmVector(affine) = linear part; xfmNormal(affine) = inverse transpose of the linear part
  P6   quaternion product: associative, unit, basis relations ij=k jk=i ki=j ii=-1 ji=-k, conj, q*conj(q) = |q|^2,
       q*rcp(q) = rcp(q)*q = 1, field layout (r,i,j,k)
  P7   LinearSpace3(q)*v = q v conj(q);  LinearSpace3(q1*q2) = LinearSpace3(q1)*LinearSpace3(q2)
  P8   quaternion-from-matrix: for every one of the 4 branches the result is parallel to q when fed L3(q)/|q|^2
  P9   LinearSpace2::rotate = [[c,-s],[s,c]]; LinearSpace3::rotate(u,r) = Rodrigues(c,s,normalize(u));
       Quaternion::rotate = (cos r/2, sin r/2 * normalize(u)); LinearSpace3(Quaternion::rotate(u,2h)) = Rodrigues in half-angle form
  P10  scale, translate, rotate about a point = T(p) R T(-p)
  P11  lookat: columns (U,V,Z) = (normalize(Z x up), U x Z, normalize(point-eye)), origin eye
  P12  yaw/pitch/roll constructor = q_yaw(about j) * q_pitch(about i) * q_roll(about k) in half angles
"""
import re

from rkstatic import irnorm
from rkstatic.front import AnalysisBroken

LEVEL = 'translation_validation'
EXPLANATION = (
    "Two independently written sides of each algebraic identity (rkcommon's API versus the textbook definition or an "
    "independent rkcommon route) are compiled with the real flags to LLVM IR and compared by exact rational-function "
    "normal form, for float (RKCOMMON_NO_SIMD, so rcp/rsqrt are plain divisions) and double instantiations: adjoint/det/"
    "inverse/transposed/rows of 2x2 and 3x3 matrices, multiplicativity of det, composition and inversion of affine maps, "
    "xfmPoint/xfmVector/xfmNormal, quaternion product laws, matrix-from-quaternion against q v conj(q), every branch of "
    "quaternion-from-matrix, Rodrigues form of rotate, rotate-about-a-point, lookat, yaw/pitch/roll. This decides the "
    "exact-arithmetic clause for all inputs at once. Not decided: the tolerance/conditioning clause (floating-point "
    "rounding), slerp and orthogonal() (iterative / transcendental), frame() (selects between vector objects, outside "
    "the IR fragment), the SIMD rcp/rsqrt approximations (C07).")

DRIVER = 'drivers/alg_linalg.cpp'
FLOOR = 44


def variants(ctx):
    v = [('float', dict(simd=False, extra=('-DNDEBUG',)))]
    v.append(('double', dict(simd=False, extra=('-DNDEBUG', '-DRKV_SCALAR=double'))))
    if ctx.tier == 'thorough':
        v.append(('double/gnu++17', dict(simd=False, std='gnu++17', extra=('-DNDEBUG', '-DRKV_SCALAR=double'))))
        v.append(('float/OMP', dict(simd=False, config='OMP', extra=('-DNDEBUG',))))
    return v


def expand_ranges(outs, elem):
    """split memset-style slots `out[a..+n]` (a run of zero bytes) into per-element slots of `elem` bytes"""
    res = {}
    for slot, gts in outs.items():
        m = re.match(r'^(\w+)\[(\d+)\.\.\+(\d+)\]$', slot)
        if m and all(t == 0 for _, t in gts) and int(m.group(3)) % elem == 0 and int(m.group(2)) % elem == 0:
            for off in range(int(m.group(2)), int(m.group(2)) + int(m.group(3)), elem):
                res['%s[%d]' % (m.group(1), off)] = gts
        else:
            res[slot] = gts
    return res


def run(ctx):
    R = 'R-C06'
    ctx.describe(R, 'lhs and rhs of the identity driver have the same exact rational-function normal form for every output '
                    'slot on every pair of consistent paths (or the __zero driver vanishes)')
    for a in ('real-number semantics of float operations (no rounding, no NaN/inf/-0)', 'denominators (det, |q|^2, |u|) are non-zero',
              'sin/cos of one argument satisfy sin^2+cos^2=1; sqrt(x)^2 = x', 'absence of undefined behaviour in the compiled drivers'):
        ctx.assume(a)
    ir_units = []
    for vname, opts in variants(ctx):
        cfg = opts.pop('config', 'TBB')
        try:
            ir = ctx.front.emit_ir(DRIVER, cfg, **opts)
        except AnalysisBroken as e:
            ctx.broken('%s [%s]: %s' % (DRIVER, vname, str(e)[:400]))
            continue
        ir_units.append({'unit': DRIVER, 'variant': vname, 'ir_lines': len(ir.splitlines())})
        mod = irnorm.Module(ir)
        pairs = sorted(set(m.group(1) for m in re.finditer(r'@(P\d+_\w+?)__lhs\(', ir)))
        zeros = sorted(set(m.group(1) for m in re.finditer(r'@(P\d+_\w+?)__zero\(', ir)))
        n = 0
        for name in pairs + zeros:
            n += 1
            inst = '%s [%s]' % (name, vname)
            rule = '%s-%s' % (R, name.split('_')[0])
            ctx.rule_text.setdefault(rule, __doc__.split('  ' + name.split('_')[0] + ' ')[1].split('\n  P')[0].strip().replace('\n', ' ')
                                     if ('  ' + name.split('_')[0] + ' ') in __doc__ else '')
            key = '%s|%s|%s|identity' % (rule, 'rkcommon/math', name)
            try:
                if name in zeros:
                    A = mod.function(name + '__zero').summary().outs()
                    B = None
                else:
                    A = mod.function(name + '__lhs').summary().outs()
                    B = mod.function(name + '__rhs').summary().outs()
            except KeyError as e:
                ctx.broken('%s: driver function missing: %s' % (inst, e))
                continue
            except irnorm.Undecided as e:
                ctx.undecided(rule, inst, 'outside the IR fragment: %s' % str(e)[:200])
                continue
            elem = 8 if 'double' in vname else 4
            A = expand_ranges(A, elem)
            B = expand_ranges(B, elem) if B is not None else None
            slots = sorted(set(A) | set(B or {}))
            bad = None
            und = None
            for slot in slots:
                if B is not None and (slot not in A or slot not in B):
                    und = 'output slot %s is written by one side only' % slot
                    break
                try:
                    if B is None:
                        for g, t in A[slot]:
                            for g2, t2 in irnorm.cases(t, g):
                                if not irnorm.is_zero(t2, trig=True):
                                    if irnorm.opaque_atoms(t2):
                                        und = 'slot %s involves opaque atoms' % slot
                                    else:
                                        bad = (slot, t2, 0)
                                    break
                            if bad or und:
                                break
                    else:
                        ok, w = irnorm.equal_guarded(A[slot], B[slot], trig=True)
                        if not ok:
                            gA, tA, gB, tB = w
                            if irnorm.opaque_atoms(tA) or irnorm.opaque_atoms(tB):
                                und = 'slot %s involves opaque atoms' % slot
                            else:
                                bad = (slot, tA, tB)
                except irnorm.Undecided as e:
                    und = 'slot %s: %s' % (slot, str(e)[:160])
                if bad or und:
                    break
            if und:
                ctx.undecided(rule, inst, und)
            elif bad:
                slot, tA, tB = bad
                ctx.violation(rule, inst, 'the two sides of the identity differ in %s: rkcommon side = %s ; definition side = %s'
                              % (slot, str(tA)[:300], str(tB)[:300]), DRIVER, key=key,
                              path=['identity driver %s in %s' % (name, DRIVER), 'slot %s' % slot, 'lhs: %s' % str(tA)[:600], 'rhs: %s' % str(tB)[:600]])
            else:
                ctx.ok(rule, inst, '%d output slot(s) identical' % len(slots), DRIVER)
        ctx.floor('%s [%s]' % (R, vname), n, FLOOR, 'identity drivers in %s: 46 on the pinned tree' % DRIVER)
    ctx.extra['ir_units'] = ir_units
    ctx.extra['programs'] = len(ir_units)
    ctx.extra['disagreements_checked'] = len(ctx.obl)
    from rkstatic import selftest
    selftest.run(ctx)
