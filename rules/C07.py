"""C07 - scalar math kernels meet their accuracy and range contracts.

All value-level rules read the LLVM IR of the identity driver drivers/alg_scalar.cpp (compiled with the
repository's flags under SIMD and under -DRKCOMMON_NO_SIMD, never linked or run) through rkstatic.irnorm:
every kernel becomes a symbolic term over its inputs and is compared with its definition by exact
polynomial / rational-function identity, by the theory of a total order (clamps, sign tests) and by
interval arithmetic over the monomials of an error polynomial (Newton-Raphson refinement).

  R-C07-1  rcp / rsqrt: with the hardware estimate written (1+e)/a resp. (1+e)/sqrt(a), |e| <= 1.5*2^-12, and every
           rounded operation k written (1+d_k), |d_k| <= 2^-24 (2^-53 for double), result*a - 1 (result*sqrt(a) - 1)
           is a polynomial / rational function in e, d_k alone and its interval bound is < 2^-20.  Both builds.
  R-C07-2  rcp_safe: rcp is applied to x when |x| >= min_normal and to +-min_normal (sign taken from x) otherwise.
  R-C07-3  clamp / divRoundUp / sign / lerp / madd / deg2rad equal their definitions.
  R-C07-4  8-bit packing: cvt_uint32(float) = round(255*clamp01(f)); the vec4f form puts channel k at shift 8k;
           linear_to_srgba gamma-corrects x,y,z only; linear_to_srgba8 is the composition.
  R-C07-5  distributions: diff = upper-lower; result = lower + diff * 2^-32 * rng(); uniform_real_distribution =
           l + (g()-min)*(u-l)/(max-min); both read nothing but their own members and the generator state.
"""
import os
import re

import sympy as sp

from rkstatic import irnorm as I
from rkstatic.irnorm import Undecided, sym

LEVEL = 'other'
EXPLANATION = (
    "Every kernel of rkmath.h / vec.h packing / random.h is instantiated by an identity driver, compiled with the real "
    "flags to LLVM IR under SIMD and RKCOMMON_NO_SIMD, and mapped by a value-graph normaliser to an exact symbolic term "
    "over its inputs (no execution, no inputs generated, no solver).  Decided for all inputs at once: the Newton-Raphson "
    "error polynomial of rcp/rsqrt depends on the estimate error alone and is bounded below 2^-20 including rounding "
    "slack; rcp_safe clamps the magnitude to the smallest normal with the sign of x; clamp, divRoundUp, sign, lerp, madd, "
    "deg2rad equal their definitions; the 8-bit packing is per channel, saturating, at shifts 0/8/16/24 with alpha not "
    "gamma-corrected; the float distributions are lower + t*(upper-lower) with t = 2^-32*rng() resp. (g-min)/(max-min) "
    "and read nothing but their members.  Not decided: denormal / -0 / NaN / huge inputs, monotonicity and accuracy of "
    "pow, the last rounding step of the distributions, statistical quality of the generator.")

DRIVER = 'drivers/alg_scalar.cpp'
RKMATH = 'rkcommon/math/rkmath.h'
VEC = 'rkcommon/math/vec.h'
RANDOM = 'rkcommon/utility/random.h'

BANNED = re.compile(r'(^|_)(rand|srand|random|time|clock|gettimeofday|clock_gettime|getpid|drand48|lrand48)($|_)|random_device|'
                    r'chrono|system_clock|steady_clock')

E_EST = sp.Rational(3, 2) / 2 ** 12       # |e| of _mm_rcp_ss / _mm_rsqrt_ss (Intel SDM), trusted base
EST_BOUND = {'rcp_ss': E_EST, 'rsqrt_ss': E_EST,
             'rcp14_ss': sp.Rational(1, 2 ** 14), 'rsqrt14_ss': sp.Rational(1, 2 ** 14)}     # vrcp14ss / vrsqrt14ss: 2^-14
EST_RCP = ('rcp_ss', 'rcp14_ss')

# ISA feature macros that select other code in the anchored headers -> compiler flag that defines them
ISA_FLAGS = {'__AVX512F__': '-mavx512f', '__AVX512VL__': '-mavx512vl', '__AVX512DQ__': '-mavx512dq', '__AVX2__': '-mavx2',
             '__AVX__': '-mavx', '__FMA__': '-mfma', '__SSE4_1__': '-msse4.1', '__SSE4_2__': '-msse4.2', '__SSE3__': '-msse3',
             '__SSSE3__': '-mssse3', '__F16C__': '-mf16c', '__SSE2__': '-msse2', '__SSE__': '-msse'}
KNOWN_MACROS = {'_WIN32', '__ARM_NEON', 'RKCOMMON_NO_SIMD', 'APPROXIMATE_SRGB', '_USE_MATH_DEFINES', 'NDEBUG', '__cplusplus'}
ANCHOR_HEADERS = ('rkcommon/math/rkmath.h', 'rkcommon/math/vec.h', 'rkcommon/utility/random.h', 'rkcommon/math/constants.h')


def conditional_configs(ctx):
    """build configurations that change the code of the anchored headers: every ISA feature macro tested by a preprocessor
    conditional there gives one more configuration (the property must hold in each).  -> ([(label, flags)], [unknown macros])"""
    import os
    found, unknown = [], []
    for h in ANCHOR_HEADERS:
        pth = os.path.join(ctx.root, h)
        if not os.path.exists(pth):
            continue
        for line in open(pth, errors='replace'):
            mt = re.match(r'^\s*#\s*(if|ifdef|ifndef|elif)\b(.*)$', line)
            if not mt:
                continue
            for ident in re.findall(r'[A-Za-z_][A-Za-z_0-9]*', mt.group(2)):
                if ident in ('defined',) or ident in KNOWN_MACROS:
                    continue
                if ident in ISA_FLAGS:
                    if ident not in found:
                        found.append(ident)
                elif ident.startswith('__') and (h, ident) not in unknown:
                    unknown.append((h, ident))
    return [(m_.strip('_'), (ISA_FLAGS[m_],)) for m_ in found], unknown

LIMIT = sp.Rational(1, 2 ** 20)


def cfgname(simd):
    return 'SIMD' if simd else 'NO_SIMD'


class Unit:
    """IR module of the driver in one configuration + summaries with uniform error handling"""

    def __init__(self, ctx, simd, flags=(), label=None):
        self.ctx = ctx
        self.simd = simd
        self.flags = tuple(flags)
        self.cfg = label or cfgname(simd)
        self.mod = I.Module(ctx.front.emit_ir(DRIVER, 'TBB', simd=simd, extra=('-DNDEBUG',) + self.flags))

    def summary(self, rule, inst, name, file, banned_key=None, **opts):
        try:
            fn = self.mod.function(name)
        except KeyError:
            self.ctx.broken('%s: driver function %s is missing from the IR of %s [%s]' % (rule, name, DRIVER, self.cfg))
            return None
        try:
            return fn.summary(**opts)
        except Undecided as e:
            m = re.search(r'call of unknown function @(\S+)', str(e))
            if m and banned_key and BANNED.search(m.group(1)):
                self.ctx.violation(rule, inst, 'calls %s: the result depends on something other than the seed-derived state'
                                   % m.group(1), file, key=banned_key)
            else:
                self.ctx.undecided(rule, inst, 'outside the decided IR fragment: %s' % e, file)
            return None


def guarded(s, slot='ret'):
    out = []
    for g, t in s.values(slot):
        out += I.cases(t, g)
    return out


def show_guard(g):
    return ' & '.join(str(l) for l in g) if g else 'always'


def unknown_atoms(t, allowed):
    return [a for a in I.all_atoms(t) if a.func.__name__ not in allowed]


# ============================================================================================
#  R-C07-1  refinement error polynomial
# ============================================================================================
def log2_floor(q):
    """floor(log2(q)) for a positive rational"""
    q = sp.Rational(q)
    e = int(q.p).bit_length() - int(q.q).bit_length()
    while sp.Rational(2) ** e > q:
        e -= 1
    while sp.Rational(2) ** (e + 1) <= q:
        e += 1
    return e


def magnitudes(s, kind, bits):
    """Range of every intermediate result of a rounded operation over the stated input range 2^-126 <= |x| < 2^126, with the
    hardware estimates read as exact (rcp_ss(a) ~ 1/a, rsqrt_ss(a) ~ 1/sqrt(a)): each intermediate is c * x^p.
    -> (problems [(term, p, lo_exp, hi_exp)], {rounding symbol name: extra binades of denormal loss (1..2)}, table)"""
    x = sym('x')
    R = 126 if kind == 'rcp' else 63
    X = sp.Symbol('mag_x', positive=True)
    emin, emax = (-126, 128) if bits == 32 else (-1022, 1024)
    probs, loose, table = [], {}, []
    for P in s.paths:
        for dname, t in P.fpvals:
            t0 = t.xreplace({d: 0 for d in t.free_symbols if d.name.startswith('_d')})
            t0 = t0.xreplace({x: X ** 2 if kind == 'rsqrt' else X})
            t0 = t0.replace(lambda z: any(I.is_app(z, nm) for nm in EST_BOUND),
                            lambda z: 1 / z.args[0] if z.func.__name__ in EST_RCP else 1 / sp.sqrt(z.args[0]))
            if t0.has(I.Sel) or unknown_atoms(t0, ()) or (t0.free_symbols - {X}):
                continue
            t0 = sp.cancel(sp.together(t0))
            if t0 == 0:
                continue
            nn, dd = sp.fraction(t0)
            try:
                Pn, Pd = sp.Poly(nn, X), sp.Poly(dd, X)
            except sp.PolynomialError:
                continue
            if len(Pd.terms()) != 1:
                continue
            (dm,), dc = Pd.terms()[0]
            terms = [(m[0] - dm, sp.Rational(c) / sp.Rational(dc)) for m, c in Pn.terms() if c.is_Rational]
            if len(terms) != len(Pn.terms()) or not terms:
                continue
            hi = sum(abs(c) * sp.Rational(2) ** (R * abs(k)) for k, c in terms)
            hie = log2_floor(hi)
            p = sp.Rational(terms[0][0], 2 if kind == 'rsqrt' else 1)
            if len(terms) == 1:
                lo = abs(terms[0][1]) * sp.Rational(2) ** (-R * abs(terms[0][0]))
                loe = log2_floor(lo)
            else:
                loe = None
            table.append((p if len(terms) == 1 else None, loe, hie))
            bad = hie >= emax or (loe is not None and loe < emin - 2)
            if bad:
                probs.append((t, p if len(terms) == 1 else None, loe, hie))
            elif loe is not None and loe < emin and dname:
                loose[dname] = max(loose.get(dname, 0), emin - loe)
    return probs, loose, table


def check_refinement(ctx, U):
    R = 'R-C07-1'
    n = 0
    for kname, what, kind, bits in (('K_rcp', 'rcp(float)', 'rcp', 32), ('K_rsqrt', 'rsqrt(float)', 'rsqrt', 32),
                                    ('K_rcp_d', 'rcp(double)', 'rcp', 64), ('K_rsqrt_d', 'rsqrt(double)', 'rsqrt', 64)):
        inst = '%s [%s]' % (what, U.cfg)
        key = '%s|%s|%s|' % (R, RKMATH, what)
        s = U.summary(R, inst, kname, RKMATH, rounding=True)
        if s is None:
            continue
        n += 1
        x = sym('x')
        u = sp.Rational(1, 2 ** 24) if bits == 32 else sp.Rational(1, 2 ** 53)
        try:
            cs = guarded(s)
        except Undecided as e:
            ctx.undecided(R, inst, str(e), RKMATH)
            continue
        worst = sp.Integer(0)
        shown = None
        bad = False
        # every intermediate must stay inside the floating-point range over the stated input range, otherwise the
        # relative rounding model (and the algebra below) does not describe the computation
        mprobs, loose, mtable = magnitudes(s, kind, bits)
        if mprobs:
            t, p, loe, hie = mprobs[0]
            ctx.violation(R, inst, 'intermediate result `%s` grows like x^%s: over 2^-126 <= |x| < 2^126 it ranges over [2^%s, 2^%s] and '
                          'leaves the %s range (overflow to infinity / flush into denormals), so the result is not within 2^-20 of the '
                          'exact value near the ends of the range although the expression is algebraically right'
                          % (t, p, loe, hie, 'float' if bits == 32 else 'double'), RKMATH, key=key + 'intermediate-range',
                          path=['result: %s' % s.value('ret')] + ['intermediate ~ x^%s in [2^%s, 2^%s]' % m for m in mtable])
            continue
        for g, t in cs:
            X = x
            if kind == 'rsqrt':
                sq = sp.Symbol('sqrt_x', positive=True)
                t = t.xreplace({x: sq ** 2})
                X = sq
            est = {}

            def rep(z):
                e = est.setdefault(z, sp.Symbol('e%d' % (len(est) + 1), real=True))
                a = z.args[0]
                return (1 + e) / a if z.func.__name__ in EST_RCP else (1 + e) / sp.sqrt(a)
            t = t.replace(lambda z: any(I.is_app(z, nm) for nm in EST_BOUND), rep)
            other = unknown_atoms(t, ())
            if other:
                ctx.undecided(R, inst, 'the result contains %s, which has no error model' % other[0], RKMATH)
                bad = True
                break
            err = sp.cancel(sp.together(sp.expand(t * X - 1)))
            small = set(est.values()) | {z for z in err.free_symbols if z.name.startswith('_d')}
            extra = err.free_symbols - small
            if extra:
                ctx.violation(R, inst, 'relative error of the result, %s, still depends on the input (%s): the refinement does '
                              'not cancel the estimate' % (sp.factor(err), ', '.join(sorted(map(str, extra)))), RKMATH,
                              key=key + 'input-dependent', path=['case: ' + show_guard(g), 'result: %s' % s.value('ret')])
                bad = True
                break
            bounds = {e: EST_BOUND[z.func.__name__] for z, e in est.items()}
            for z in small:
                if z.name.startswith('_d'):
                    bounds[z] = u * 2 ** loose.get(z.name, 0)
            try:
                b = I.error_bound(err, bounds)
            except Undecided as e:
                ctx.undecided(R, inst, str(e), RKMATH)
                bad = True
                break
            ideal = sp.factor(err.xreplace({z: 0 for z in small if z.name.startswith('_d')}))
            if b >= LIMIT:
                ctx.violation(R, inst, 'relative error %s (estimate error e of %s, |e| <= %s) is bounded only by %.3g * 2^-20 '
                              'including %d rounded operations; required < 2^-20'
                              % (ideal, ', '.join(sorted({z.func.__name__ for z in est})) or 'no estimate',
                                 ', '.join(sorted({'2^%.1f' % float(sp.log(EST_BOUND[z.func.__name__], 2)) for z in est})) or '-',
                                 float(b * 2 ** 20), s.nround), RKMATH,
                              key=key + 'error-bound', path=['case: ' + show_guard(g), 'result: %s' % s.value('ret')])
                bad = True
                break
            if b >= worst:
                worst, shown = b, ideal
        if not bad:
            ctx.ok(R, inst, 'relative error %s + rounding of %d operation(s); interval bound %.3g * 2^-20; intermediates ~ x^p, p in {%s}, '
                   'all inside the normal range (%d within 2 binades below it)'
                   % (shown, s.nround, float(worst * 2 ** 20), ', '.join(sorted({str(m[0]) for m in mtable})), len(loose)), RKMATH)
    return n


# ============================================================================================
#  R-C07-2  rcp_safe
# ============================================================================================
def check_rcp_safe(ctx, U):
    R = 'R-C07-2'
    n = 0
    x = sym('x')
    for kname, rname, what, M in (('K_rcp_safe', 'K_rcp', 'rcp_safe(float)', sp.Rational(1, 2 ** 126)),
                                  ('K_rcp_safe_d', 'K_rcp_d', 'rcp_safe(double)', sp.Rational(1, 2 ** 1022))):
        inst = '%s [%s]' % (what, U.cfg)
        key = '%s|%s|%s|' % (R, RKMATH, what)
        s = U.summary(R, inst, kname, RKMATH)
        r = U.summary(R, inst, rname, RKMATH)
        if s is None or r is None:
            continue
        n += 1
        try:
            Rt = r.value('ret')
            cs = guarded(s)
        except Undecided as e:
            ctx.undecided(R, inst, str(e), RKMATH)
            continue
        if Rt.has(I.Sel):
            ctx.undecided(R, inst, 'rcp itself has cases; composition not recognised', RKMATH)
            continue
        fx = I.atom('fabs', x)
        problems = []
        und = []
        for g, t in cs:
            g = list(g)
            inside = I.implies(g, I.flit('olt', fx, M)) or (I.implies(g, I.flit('olt', x, M)) and I.implies(g, I.flit('olt', -M, x)))
            outside = (I.implies(g, I.flit('ole', M, fx)) or I.implies(g, I.flit('ole', M, x)) or I.implies(g, I.flit('ole', x, -M)))
            # which argument is rcp applied to?
            arg = None
            for cand in (x, M, -M, I.atom('copysign', M, x)):
                if I.equal(t, Rt.xreplace({x: cand})):
                    arg = cand
                    break
            if arg is None:
                est = [a_ for nm in EST_RCP for a_ in I.atoms(t, nm)]
                cand = est[0].args[0] if len(est) == 1 else sp.cancel(1 / t)
                if not unknown_atoms(cand, ('fabs', 'copysign')) and I.equal(t, Rt.xreplace({x: cand})):
                    arg = cand
            if arg is None:
                und.append('case %s: result %s is not rcp of a recognisable argument' % (show_guard(g), t))
                continue
            if not inside and not outside:
                vocab = all(set(map(str, l.free_symbols)) <= {'x'} for l in g)
                (problems if vocab else und).append(('threshold', 'case `%s` is neither |x| < min_normal nor |x| >= min_normal: the '
                                                     'clamp threshold is not the smallest normal number' % show_guard(g))
                                                    if vocab else 'guard %s not recognised' % show_guard(g))
                continue
            if outside:
                if arg != x:
                    problems.append(('arg', 'for |x| >= min_normal the reciprocal is taken of %s instead of x' % arg))
                continue
            # inside: +-M with the sign of x
            if arg == x:
                problems.append(('unclamped', 'for |x| < min_normal the reciprocal is taken of x itself (overflows to infinity)'))
            elif I.is_app(arg, 'copysign'):
                pass
            elif arg == M:
                if I.consistent(g + [I.flit('olt', x, 0)]):
                    problems.append(('sign', 'case `%s` maps negative x to +min_normal (result has the opposite sign)' % show_guard(g)))
            elif arg == -M:
                if I.consistent(g + [I.flit('olt', 0, x)]):
                    problems.append(('sign', 'case `%s` maps positive x to -min_normal (result has the opposite sign)' % show_guard(g)))
            else:
                problems.append(('magnitude', 'tiny x is replaced by %s, not by +-min_normal' % arg))
        for u in und:
            ctx.undecided(R, inst, u if isinstance(u, str) else u[1], RKMATH)
        for kind, why in problems:
            ctx.violation(R, inst, why, RKMATH, key=key + kind, path=['result: %s' % s.value('ret')])
        if not und and not problems:
            ctx.ok(R, inst, '%d cases: rcp(x) for |x| >= min_normal, rcp(+-min_normal) with the sign test on x otherwise' % len(cs), RKMATH)
    return n


# ============================================================================================
#  R-C07-3  definitions
# ============================================================================================
def order_lits(isfloat):
    if isfloat:
        return dict(lt=lambda a, b: I.flit('olt', a, b), le=lambda a, b: I.flit('ole', a, b), ne=lambda a, b: I.flit('one', a, b))
    return dict(lt=lambda a, b: I.ilit('slt', a, b), le=lambda a, b: I.ilit('sle', a, b), ne=lambda a, b: I.ilit('ne', a, b))


def clamp_problems(cs, x, lo, hi, isfloat):
    """cs: [(guard, Sel-free term)].  -> (problems, undecided) for `value in [lo,hi], equal to x when x is inside`"""
    L = order_lits(isfloat)
    A = [L['le'](lo, hi)]
    probs, und = [], []
    for g, t in cs:
        G = list(g) + A
        if not I.consistent(G):
            continue
        if not any(I.equal(t, c) for c in (x, lo, hi)):
            und.append('case `%s` yields %s, which is none of x / lower / upper' % (show_guard(g), t))
            continue
        if I.consistent(G + [L['lt'](t, lo)]):
            probs.append(('below', 'case `%s` yields %s, which can be below the lower bound' % (show_guard(g), t)))
        if I.consistent(G + [L['lt'](hi, t)]):
            probs.append(('above', 'case `%s` yields %s, which can exceed the upper bound' % (show_guard(g), t)))
        if I.consistent(G + [L['le'](lo, x), L['le'](x, hi), L['ne'](t, x)]):
            probs.append(('identity', 'case `%s` yields %s although x may lie inside [lower, upper]' % (show_guard(g), t)))
    return probs, und


def report(ctx, R, inst, file, key, probs, und, okmsg, path=None):
    for u in und:
        ctx.undecided(R, inst, u, file)
    seen = set()
    for kind, why in probs:
        if kind in seen:
            continue
        seen.add(kind)
        ctx.violation(R, inst, why, file, key=key + kind, path=path or [])
    if not probs and not und:
        ctx.ok(R, inst, okmsg, file)


def nosimd_copysign(U):
    """does the NO_SIMD build also compute a sign-bit copy?  (only used to word the report)"""
    try:
        V = U if not U.simd else Unit(U.ctx, False)
        return any(I.is_app(t, 'copysign') for _, t in guarded(V.mod.function('K_sign').summary()))
    except Exception:
        return False


def check_definitions(ctx, U):
    R = 'R-C07-3'
    n = 0
    x, lo, hi, a, b, c, f = (sym(k) for k in ('x', 'lo', 'hi', 'a', 'b', 'c', 'f'))
    # ---- clamp
    for kname, what, isf, bounds in (('K_clamp_f', 'clamp<float>', True, (lo, hi)), ('K_clamp_d', 'clamp<double>', True, (lo, hi)),
                                     ('K_clamp_i', 'clamp<int>', False, (lo, hi)),
                                     ('K_clamp01', 'clamp<float> default bounds', True, (sp.Integer(0), sp.Integer(1)))):
        inst = '%s [%s]' % (what, U.cfg)
        s = U.summary(R, inst, kname, RKMATH)
        if s is None:
            continue
        n += 1
        try:
            cs = guarded(s)
        except Undecided as e:
            ctx.undecided(R, inst, str(e), RKMATH)
            continue
        probs, und = clamp_problems(cs, x, bounds[0], bounds[1], isf)
        report(ctx, R, inst, RKMATH, '%s|%s|clamp|' % (R, RKMATH), probs, und,
               '%d cases: inside [lower, upper] and equal to x whenever x is inside (given lower <= upper)' % len(cs),
               ['result: %s' % s.value('ret')])
    # ---- divRoundUp
    for kname, what, div, narrow in (('K_divRoundUp_i', 'divRoundUp<int>', 'sdiv32', 0), ('K_divRoundUp_u', 'divRoundUp<unsigned>', 'udiv32', 0),
                                     ('K_divRoundUp_ul', 'divRoundUp<size_t>', 'udiv64', 0),
                                     ('K_divRoundUp_u8', 'divRoundUp<unsigned char>', 'sdiv32', 8),
                                     ('K_divRoundUp_s16', 'divRoundUp<short>', 'sdiv32', 16)):
        inst = '%s [%s]' % (what, U.cfg)
        key = '%s|%s|divRoundUp|' % (R, RKMATH)
        # element types narrower than int: a + b - 1 is formed in int (integer promotion), where it cannot overflow, and only the
        # quotient is converted back to T; an unsigned char operand is a non-negative int
        s = U.summary(R, inst, kname, RKMATH, **({'nonneg': (lambda nm: True)} if narrow == 8 else {}))
        if s is None:
            continue
        n += 1
        try:
            cs = guarded(s)
        except Undecided as e:
            ctx.undecided(R, inst, str(e), RKMATH)
            continue
        q = I.atom(div, a, b)
        accepted = [I.atom(div, a + b - 1, b), q + I.mk_sel(I.ilit('ne', a - b * q, 0), sp.Integer(1), sp.Integer(0))]
        pred_form = I.atom(div, a - 1, b) + 1        # right for a >= 1 only
        probs, und = [], []
        forms = set()
        if narrow == 8:
            accepted.append(I.atom('udiv32', a + b - 1, b))          # operands known non-negative: the same quotient
        for g, v in cs:
            g = list(g)
            inner = [z for z in I.all_atoms(v) if narrow and z.func.__name__ in ('sext%d_32' % narrow, 'zext%d_32' % narrow)
                     and not z.args[0].is_Symbol]
            if narrow and (inner or (I.is_app(v, 'udiv%d' % narrow) or I.is_app(v, 'sdiv%d' % narrow))):
                num = inner[0].args[0] if inner else v.args[0]
                probs.append(('narrow-numerator', 'the numerator %s is reduced to the %d-bit element type before the division (computes %s): '
                              'the operands of a type narrower than int are promoted, so (a + b - 1) / b forms the sum in int and only the '
                              'quotient is narrowed; held in a T-typed intermediate the sum wraps whenever a + b - 1 exceeds the range of T '
                              'although the quotient fits (divRoundUp<uint8_t>(200, 100) = 0 instead of 2)' % (num, narrow, v)))
            elif any(I.equal_guarded([(tuple(g), v)], [((), e)])[0] for e in accepted):
                forms.add('(a + b - 1) / b')
            elif I.equal(v, pred_form):
                forms.add('(a - 1) / b + 1 for a != 0')
                if I.consistent(g + [I.ilit('eq', a, 0)]):
                    probs.append(('zero', 'computes (a - 1) / b + 1 also for a == 0, where it yields %s instead of 0 '
                                  '(the least q with q*b >= 0)' % ('(-1)/b + 1 = 1' if div[0] == 's' else 'T_MAX / b + 1')))
            elif v == 0:
                forms.add('0 for a == 0')
                if I.consistent(g + [I.ilit('slt', 0, a)]) and I.consistent(g + [I.ilit('ne', a, 0)]):
                    probs.append(('zero', 'case `%s` returns 0 although a may be positive' % show_guard(g)))
            elif I.is_app(v, div) and len(v.args) == 2 and not unknown_atoms(v.args[0], ()) and not unknown_atoms(v.args[1], ()):
                probs.append(('form', 'computes %s; the least q with q*b >= a is (a + b - 1) / b' % v))
            elif I.equal(v, q) or I.equal(v, q + 1):
                probs.append(('form', 'computes %s, which is not the ceiling of a/b for all a' % v))
            else:
                und.append('form %s is neither a recognised ceil-div nor a recognised wrong one' % v)
        report(ctx, R, inst, RKMATH, key, probs, und, 'ceil-div form: %s' % '; '.join(sorted(forms)))
    # ---- sign
    inst = 'sign(float) [%s]' % U.cfg
    s = U.summary(R, inst, 'K_sign', RKMATH)
    if s is not None:
        n += 1
        try:
            probs, und = [], []
            for g, t in guarded(s):
                g = list(g)
                if t == -1:
                    if I.consistent(g + [I.flit('ole', 0, x)]):
                        probs.append(('neg', 'case `%s` returns -1 although x may be >= 0' % show_guard(g)))
                elif t == 1:
                    if I.consistent(g + [I.flit('olt', x, 0)]):
                        probs.append(('pos', 'case `%s` returns +1 although x may be negative' % show_guard(g)))
                elif I.is_app(t, 'copysign') and t.args[0] in (1, -1) and I.equal(t.args[1], x):
                    # a sign-bit copy: -1 exactly when the sign bit of x is set.  -0.0f is a finite float with the sign bit set.
                    probs.append(('negative-zero', 'computes copysign(1, x), a copy of the sign bit: sign(-0.0f) = -1 (and -1 for every NaN '
                                  'with the sign bit set), whereas the definition x < 0 ? -1 : +1 gives +1 there%s'
                                  % (' (%s build%s)' % (U.cfg, '; the RKCOMMON_NO_SIMD build computes the definition, so the two builds '
                                                        'disagree' if U.simd and not nosimd_copysign(U) else ''))))
                elif t.is_Number:
                    probs.append(('value', 'returns %s; sign is -1 for x < 0 and +1 otherwise' % t))
                else:
                    und.append('case `%s` returns %s' % (show_guard(g), t))
            report(ctx, R, inst, RKMATH, '%s|%s|sign|' % (R, RKMATH), probs, und, '-1 exactly when x < 0, else +1')
        except Undecided as e:
            ctx.undecided(R, inst, str(e), RKMATH)
    # ---- polynomial definitions
    for kname, what, expect, txt in (('K_lerp', 'lerp<float>', (1 - f) * a + f * b, '(1-f)*a + f*b'),
                                     ('K_lerp_d', 'lerp<double>', (1 - f) * a + f * b, '(1-f)*a + f*b'),
                                     ('K_madd', 'madd', a * b + c, 'a*b + c')):
        inst = '%s [%s]' % (what, U.cfg)
        s = U.summary(R, inst, kname, RKMATH)
        if s is None:
            continue
        n += 1
        try:
            cs_ = guarded(s)            # every path / select case must equal the definition under its guard
            bad_ = [(g_, t_) for g_, t_ in cs_ if not (I.equal(t_, expect) or I.equal_under(list(g_), t_, expect))]
            if not bad_:
                ctx.ok(R, inst, '%s == %s%s' % (sp.expand(cs_[-1][1]), txt, ' (%d cases)' % len(cs_) if len(cs_) > 1 else ''), RKMATH)
            elif any(I.opaque_atoms(t_) or unknown_atoms(t_, ()) for _, t_ in bad_):
                ctx.undecided(R, inst, 'result %s contains atoms outside the polynomial fragment' % bad_[0][1], RKMATH)
            else:
                g_, t_ = bad_[0]
                if g_:
                    ctx.violation(R, inst, 'in the case `%s` the result is %s, but the definition %s gives %s there (difference %s): the '
                                  'function does not follow its definition for those arguments%s'
                                  % (show_guard(g_), sp.expand(t_), txt, sp.expand(expect), sp.expand(t_ - expect),
                                     ' - the factor is effectively clamped, so extrapolation (f < 0 or f > 1) returns an end point'
                                     if 'lerp' in what and t_ in (a, b) else ''),
                                  RKMATH, key='%s|%s|%s|definition' % (R, RKMATH, what.split('<')[0]))
                else:
                    ctx.violation(R, inst, 'computes %s, definition is %s (difference %s)' % (sp.expand(t_), txt, sp.expand(t_ - expect)),
                                  RKMATH, key='%s|%s|%s|definition' % (R, RKMATH, what.split('<')[0]))
        except Undecided as e:
            ctx.undecided(R, inst, str(e), RKMATH)
    # ---- madd: the definition a*b + c is two float operations - the product is rounded to float, then the sum is rounded.  A fused
    #      multiply-add rounds once: algebraically the same value, but a different float for about one triple in five, and a cancelling
    #      sum madd(a, b, -(a*b)) returns the rounding error of the product instead of 0.
    inst = 'madd roundings [%s]' % U.cfg
    s = U.summary(R, inst, 'K_madd', RKMATH, rounding=True)
    if s is not None:
        n += 1
        try:
            probs, und = [], []
            for g_, t_ in guarded(s):
                ds = sorted((z for z in t_.free_symbols if re.match(r'^_d\d+$', z.name)), key=lambda z: int(z.name[2:]))
                exact = sp.expand(t_.xreplace({z: 0 for z in ds}))
                if I.opaque_atoms(t_) or unknown_atoms(t_, ()) or not (I.equal(exact, a * b + c) or I.equal_under(list(g_), exact, a * b + c)):
                    und.append('case `%s`: %s is not a*b + c with rounding factors' % (show_guard(g_), t_))
                    continue
                two = [(u, v) for u in ds for v in ds if u != v and I.equal(t_, (a * b * (1 + u) + c) * (1 + v))]
                if two:
                    continue
                if len(ds) == 1 and I.equal(t_, (a * b + c) * (1 + ds[0])):
                    probs.append(('single-rounding', 'a*b + c is evaluated with one rounding, (a*b + c)(1+d) - a fused multiply-add: the '
                                  'product is not rounded to float before the addition, so the result differs from the float expression '
                                  'a*b + c = ((a*b)(1+d1) + c)(1+d2) whenever the low half of the exact product survives the sum (about one '
                                  'random triple in five by an ulp; madd(a, a, -(a*a)) returns the rounding error of a*a, e.g. 2^-24 for '
                                  'a = 1 + 2^-12, instead of 0)'))
                else:
                    und.append('case `%s`: rounding structure %s is neither (a*b(1+d1) + c)(1+d2) nor the fused (a*b + c)(1+d)'
                               % (show_guard(g_), t_))
            report(ctx, R, inst, RKMATH, '%s|%s|madd|' % (R, RKMATH), probs, und,
                   'product rounded to float, then the sum rounded: ((a*b)(1+d1) + c)(1+d2)')
        except Undecided as e:
            ctx.undecided(R, inst, str(e), RKMATH)
    # ---- lerp: element types other than float (the definition converts each operand to float before any arithmetic)
    for kname, what, conv, cast in (('K_lerp_u', 'lerp<unsigned>', 'uitofp_32', 'fptoui32'), ('K_lerp_i', 'lerp<int>', 'sitofp_32', 'fptosi32')):
        inst = '%s [%s]' % (what, U.cfg)
        s = U.summary(R, inst, kname, RKMATH, nonneg=lambda nm: nm in ('a', 'b') and kname == 'K_lerp_u')
        if s is None:
            continue
        n += 1
        try:
            cs_ = guarded(s)
            defn = (1 - f) * a + f * b
            # a case may return an operand itself (the conversion of an integral operand to float and back is the identity)
            inner_of = lambda t_: t_.args[0] if I.is_app(t_, cast) else (t_ if t_ in (a, b) else None)
            good_ = all(inner_of(t_) is not None and (I.equal(inner_of(t_), defn) or I.equal_under(list(g_), inner_of(t_), defn)) for g_, t_ in cs_)
            t = cs_[-1][1]
            inner = inner_of(t)
            pre = [z for _, t_ in cs_ for z in I.all_atoms(t_)
                   if z.func.__name__ in ('uitofp_32', 'sitofp_32', 'zext32_64', 'sext32_64') and not z.args[0].is_Symbol]
            wrong_ = [(g_, t_) for g_, t_ in cs_ if inner_of(t_) is not None and not unknown_atoms(t_, (cast,)) and
                      not (I.equal(inner_of(t_), defn) or I.equal_under(list(g_), inner_of(t_), defn))]
            if good_:
                ctx.ok(R, inst, '(T)((1-f)*float(a) + f*float(b))%s' % (' (%d cases)' % len(cs_) if len(cs_) > 1 else ''), RKMATH)
            elif wrong_ and wrong_[0][0] and not pre:
                g_, t_ = wrong_[0]
                ctx.violation(R, inst, 'in the case `%s` the result is %s, but the definition gives %s((1-f)*a + f*b) there%s'
                              % (show_guard(g_), t_, cast, ' - the factor is effectively clamped, so extrapolation returns an end point'
                                 if t_ in (a, b) else ''), RKMATH, key='%s|%s|lerp|definition' % (R, RKMATH))
            elif pre:
                ctx.violation(R, inst, 'the operands are combined in the element type before the conversion to float: %s is evaluated in %s, '
                              'where it wraps around (for unsigned T whenever b < a); the definition (1-f)*a + f*b converts a and b first'
                              % (pre[0].args[0], what[5:-1]), RKMATH, key='%s|%s|lerp|integer-arithmetic' % (R, RKMATH))
            elif unknown_atoms(t, (cast,)):
                ctx.undecided(R, inst, 'result %s' % t, RKMATH)
            else:
                ctx.violation(R, inst, 'computes %s, definition is %s((1-f)*a + f*b)' % (t, cast), RKMATH,
                              key='%s|%s|lerp|definition' % (R, RKMATH))
        except Undecided as e:
            ctx.undecided(R, inst, str(e), RKMATH)
    # ---- lerp: no intermediate exceeds max(|a|, |b|) for f in [0, 1] (so finite operands never overflow)
    for kname, what in (('K_lerp', 'lerp<float>'), ('K_lerp_d', 'lerp<double>')):
        inst = '%s intermediates [%s]' % (what, U.cfg)
        s = U.summary(R, inst, kname, RKMATH)
        if s is None:
            continue
        n += 1
        worst = None
        skipped = 0
        for P_ in s.paths:
            for _, t in P_.fpvals:
                if unknown_atoms(t, ()) or t.has(I.Sel) or not (t.free_symbols <= {f, a, b}):
                    skipped += 1
                    continue
                try:
                    pl = sp.Poly(sp.expand(t), f, a, b)
                except sp.PolynomialError:
                    skipped += 1
                    continue
                if any(max(m[i] for m, _ in pl.terms()) > 1 for i in range(3)):
                    skipped += 1
                    continue
                # multilinear: the extreme values over f in [0,1], |a|,|b| <= M are attained at the corners of the box
                mx = max(abs(t.xreplace({f: fv, a: av, b: bv})) for fv in (0, 1) for av in (-1, 1) for bv in (-1, 1))
                if worst is None or mx > worst[0]:
                    worst = (mx, t)
        if worst is None or skipped:
            ctx.undecided(R, inst, 'intermediate results are not all multilinear in (f, a, b)', RKMATH)
        elif worst[0] > 1:
            ctx.violation(R, inst, 'the intermediate `%s` reaches %s * max(|a|, |b|) for f in [0, 1]: it overflows to infinity for finite '
                          'operands of opposite sign near the largest float (lerp(0.5, -3e38, 3e38) = inf, lerp(0, a, b) = NaN), whereas every '
                          'intermediate of the definition (1-f)*a + f*b stays within max(|a|, |b|)' % (worst[1], worst[0]), RKMATH,
                          key='%s|%s|lerp|intermediate-range' % (R, RKMATH))
        else:
            ctx.ok(R, inst, 'every intermediate is bounded by max(|a|, |b|) for f in [0, 1] (corner values of the multilinear terms)', RKMATH)
    # ---- deg2rad
    for kname, what, mant in (('K_deg2rad', 'deg2rad<float>', 23), ('K_deg2rad_d', 'deg2rad<double>', 52)):
        inst = '%s [%s]' % (what, U.cfg)
        s = U.summary(R, inst, kname, RKMATH)
        if s is None:
            continue
        n += 1
        try:
            t = s.value('ret')
            k = sp.cancel(t / x)
            if not k.is_Rational:
                if unknown_atoms(t, ()) or t.has(I.Sel):
                    ctx.undecided(R, inst, 'result %s is not a constant multiple of x' % t, RKMATH)
                else:
                    ctx.violation(R, inst, 'computes %s, not a constant multiple of x' % t, RKMATH,
                                  key='%s|%s|deg2rad|shape' % (R, RKMATH))
                continue
            e = sp.floor(sp.log(k, 2)) if k > 0 else None
            ulp = sp.Rational(2) ** (int(e) - mant) if e is not None else 0
            dist = sp.N(sp.Abs(k - sp.pi / 180), 80)
            # pi/180 < 1, so deg2rad(x) is representable for every finite x: no intermediate may exceed |x|
            big = None
            for P_ in s.paths:
                for _, it in P_.fpvals:
                    kk = sp.cancel(it / x) if not unknown_atoms(it, ()) else None
                    if kk is not None and kk.is_Rational and abs(kk) > 1 and (big is None or abs(kk) > abs(big[0])):
                        big = (kk, it)
            if k > 0 and dist <= 2 * ulp and big is not None:
                ctx.violation(R, inst, 'the intermediate `%s` = %.6g * x exceeds |x|: it overflows to infinity for finite |x| > FLT_MAX / %.4g '
                              '(the last binades of the float range), although the result x * pi/180 is representable for every finite x; '
                              'the factor has to be applied as one constant below 1 (x * (pi / 180))' % (big[1], float(big[0]), float(big[0])),
                              RKMATH, key='%s|%s|deg2rad|intermediate-range' % (R, RKMATH))
                continue
            if k > 0 and dist <= ulp:
                ctx.ok(R, inst, 'x * %s; |constant - pi/180| = %.3g ulp' % (k, float(dist / ulp)), RKMATH)
            else:
                ctx.violation(R, inst, 'multiplies by %s = %.17g; pi/180 = 0.017453292519943295 differs by more than one ulp'
                              % (k, float(k)), RKMATH, key='%s|%s|deg2rad|constant' % (R, RKMATH))
        except Undecided as e:
            ctx.undecided(R, inst, str(e), RKMATH)
    return n


# ============================================================================================
#  R-C07-4  packing
# ============================================================================================
def cvt_case_problems(cs, f):
    """cs: cases of a cvt_uint32(float) term in input f -> (problems, undecided).
    Each case must be  convert(rounding(255 * c))  with c the saturating clamp of f to [0, 1]: c in {f, 0, 1}, inside [0, 1]
    under the case guard, equal to f when f is inside.  Rounding forms: round / rint / floor(. + 1/2) and the truncating
    conversion of (. + 1/2) (round-half-up, the operand being >= 0)."""
    clampcs = []
    probs, und = [], []
    ok_c = lambda cv: any(I.equal(cv, z) for z in (f, 0, 1))
    for g, t in cs:
        if not (I.is_app(t, 'fptoui32') or I.is_app(t, 'fptosi32')):
            if t.is_Integer and 0 <= t <= 255:
                clampcs.append((g, sp.Rational(t, 255)))      # constant-folded arm round(255*c)
                continue
            und.append('case `%s`: result %s is not a float-to-integer conversion' % (show_guard(g), t))
            continue
        A = t.args[0]
        B = None
        if I.is_app(A, 'round') or I.is_app(A, 'rint'):
            B = A.args[0]
        elif A.is_Integer:
            B = A                    # round() of an integral constant, folded
        elif I.is_app(A, 'floor'):
            B = A.args[0] - sp.Rational(1, 2)
        elif unknown_atoms(A, ()):
            und.append('case `%s`: %s is not a recognised rounding' % (show_guard(g), A))
            continue
        elif ok_c(sp.expand((A - sp.Rational(1, 2)) / 255)):
            B = A - sp.Rational(1, 2)                           # (uint32_t)(255*c + 0.5f)
        elif ok_c(sp.expand(A / 255)) or A.free_symbols <= {f}:
            probs.append(('round', 'converts %s to an integer by truncation; the definition rounds to nearest' % A))
            continue
        else:
            und.append('case `%s`: converts %s' % (show_guard(g), A))
            continue
        cval = sp.expand(B / 255)
        if ok_c(cval):
            clampcs.append((g, cval))
        elif not unknown_atoms(B, ()) and B.free_symbols <= {f}:
            probs.append(('scale', 'case `%s`: rounds %s; the definition rounds 255 * clamp(f, 0, 1)' % (show_guard(g), B)))
        else:
            und.append('case `%s`: rounds %s' % (show_guard(g), B))
    p2, u2 = clamp_problems(clampcs, f, sp.Integer(0), sp.Integer(1), True)
    for k, w in p2:
        if k == 'above':
            # which case?  name the real cause: the conversion operand is unbounded
            gs = [g for g, c in clampcs if I.equal(c, f) and I.consistent(list(g) + [I.flit('olt', 1, f)])]
            g = gs[0] if gs else ()
            late = any(any(a.func.__name__.startswith('fpto') for a in I.all_atoms(l)) for l in g)
            probs.append(('conversion-range', 'case `%s`: the operand of the float -> uint32 conversion is 255*f (rounded) with f not bounded '
                          'above - the case admits f > 1, so its range includes values >= 2^32 and +inf, for which the conversion is undefined '
                          '(wraps to 0 on x86)%s: the channel is not saturating; the clamp to 1 has to be applied before the conversion'
                          % (show_guard(g), '; the comparison with 255 is made on the already converted integer' if late else '')))
        else:
            probs.append(('clamp-' + k, w))
    return probs, und + u2


def check_packing(ctx, U):
    R = 'R-C07-4'
    n = 0
    f = sym('f')
    key = lambda fn, d: '%s|%s|%s|%s' % (R, VEC, fn, d)
    # ---- cvt_uint32(float)
    inst = 'cvt_uint32(float) [%s]' % U.cfg
    s1 = U.summary(R, inst, 'K_cvt1', VEC)
    cvt = None
    if s1 is not None:
        n += 1
        try:
            cs1 = guarded(s1)                        # all paths and select cases: [(guard, Sel-free term)]
            probs, und = cvt_case_problems(cs1, f)
            if len(s1.paths) == 1:
                cvt = s1.value('ret')
            else:
                # control-flow form of the clamp: one term with the path guards as select conditions (paths partition the inputs)
                cvt = cs1[-1][1]
                for g_, v_ in reversed(cs1[:-1]):
                    cvt = I.mk_sel(I.b_and(*g_), v_, cvt)
            report(ctx, R, inst, VEC, key('cvt_uint32(float)', ''), probs, und,
                   'round(255 * c) with c = clamp of f to [0, 1] (saturating, identity inside)%s'
                   % (' [%d paths]' % len(s1.paths) if len(s1.paths) > 1 else ''), ['result: %s' % cvt])
            if probs or und:
                cvt = None
        except Undecided as e:
            ctx.undecided(R, inst, str(e), VEC)
            cvt = None

    def match_channels(inst, t, chan_terms, fname):
        """t must be the OR / sum of 2^(8k) * cvt(chan_terms[k])"""
        expected = [2 ** (8 * k) * cvt.xreplace({f: ct}) for k, ct in enumerate(chan_terms)]
        ops = I.or_operands(t)
        names = 'xyzw'
        if len(ops) == 1:
            okk, _ = I.equal_guarded([((), t)], [((), sum(expected))])
            if okk:
                ctx.ok(R, inst, 'sum of cvt(channel k) << 8k', VEC)
                return
        used = set()
        probs, und = [], []
        for k, e in enumerate(expected):
            hit = None
            for j, o in enumerate(ops):
                if j in used:
                    continue
                try:
                    if I.equal_guarded([((), o)], [((), e)])[0]:
                        hit = j
                        break
                except Undecided as ex:
                    und.append(str(ex))
            if hit is None:
                # where did this channel go?
                found = None
                for sh in range(4):
                    alt = 2 ** (8 * sh) * cvt.xreplace({f: chan_terms[k]})
                    for j, o in enumerate(ops):
                        try:
                            if I.equal_guarded([((), o)], [((), alt)])[0]:
                                found = sh
                        except Undecided:
                            pass
                if found is not None:
                    probs.append(('channel-%s' % names[k], 'channel %s is packed at bit %d instead of bit %d' % (names[k], 8 * found, 8 * k)))
                else:
                    probs.append(('channel-%s' % names[k], 'no operand of the packed word equals cvt_uint32(%s) << %d' % (names[k], 8 * k)))
            else:
                used.add(hit)
        if len(ops) != 4 and not probs:
            probs.append(('operands', 'packed word has %d operands, expected 4' % len(ops)))
        report(ctx, R, inst, VEC, key(fname, ''), probs, [] if probs else und,
               'cvt(x) | cvt(y) << 8 | cvt(z) << 16 | cvt(w) << 24, each through the saturating clamp', ['result: %s' % t])

    def match_channels_paths(inst, paths, chan_terms, fname):
        """several control-flow paths (the per-channel clamp is written with branches): on every path and for every channel
        the byte field of the packed word that depends on that channel must equal cvt(channel) << 8k under the path guard"""
        names = 'xyzw'
        deps = [ct.free_symbols for ct in chan_terms]
        probs, und = [], []
        for g, t in paths:
            # split into per-channel fields first, so that the select cases of one channel are not multiplied by those of the others
            top = [(g, t)] if (I.or_operands(t) != [t] or t.is_Add or not t.has(I.Sel)) else I.cases(t, g)
            for g2, t2 in top:
                if I.or_operands(t2) != [t2]:
                    ops = I.or_operands(t2)
                elif t2.is_Add:
                    ops = list(t2.args)
                else:
                    ops = [t2]
                const = 0
                fields = {k: sp.Integer(0) for k in range(4)}
                mixed = False
                for o in ops:
                    if o.is_Integer:
                        const |= int(o) & 0xFFFFFFFF        # i32 residues are printed signed
                        continue
                    ks = [k for k in range(4) if o.free_symbols & deps[k]]
                    if not ks:
                        # a symbol-free, unfolded operand: the channel whose expected field it equals under this guard
                        ks = [k for k in range(4) if fields[k] == 0 and
                              I.equal_guarded([(g2, o)], [((), 2 ** (8 * k) * cvt.xreplace({f: chan_terms[k]}))])[0]][:1]
                    if len(ks) != 1:
                        mixed = True
                        break
                    fields[ks[0]] += o
                if mixed or const < 0 or const >> 32:
                    und.append('path `%s`: packed word %s is not a combination of per-channel fields' % (show_guard(g2), t2))
                    continue
                for k in range(4):
                    byte = (const >> (8 * k)) & 255
                    if byte and fields[k] != 0:
                        und.append('path `%s`: byte %d of the packed word has a constant and a variable part' % (show_guard(g2), k))
                        continue
                    field = fields[k] + byte * 2 ** (8 * k)
                    try:
                        if I.equal_guarded([(g2, field)], [((), 2 ** (8 * k) * cvt.xreplace({f: chan_terms[k]}))])[0]:
                            continue
                        found = [sh for sh in range(4) if sh != k and fields[k] != 0 and
                                 I.equal_guarded([(g2, fields[k])], [((), 2 ** (8 * sh) * cvt.xreplace({f: chan_terms[k]}))])[0]]
                    except Undecided as ex:
                        und.append(str(ex))
                        continue
                    foreign = sorted({str(z) for l_ in g2 for z in l_.free_symbols} - {str(z) for z in deps[k]})
                    if found:
                        probs.append(('channel-%s' % names[k], 'channel %s is packed at bit %d instead of bit %d' % (names[k], 8 * found[0], 8 * k)))
                    elif not (field.free_symbols & deps[k]) and foreign and not any(str(z) in {str(y) for y in deps[k]} for l_ in g2 for z in l_.free_symbols):
                        probs.append(('not-per-channel', 'on the path `%s`, which tests only %s, the byte of channel %s is the constant %s whatever '
                                      '%s is: the packed channel depends on another component instead of on its own value alone (the packing '
                                      'is neither per-channel nor saturating there)' % (show_guard(g2), ', '.join(foreign), names[k], field, names[k])))
                    else:
                        probs.append(('channel-%s' % names[k], 'on the path `%s` the field of channel %s is %s, not cvt_uint32(%s) << %d'
                                      % (show_guard(g2), names[k], field, names[k], 8 * k)))
        report(ctx, R, inst, VEC, key(fname, ''), probs, [] if probs else und[:3],
               'on each of the %d paths: cvt(x) | cvt(y) << 8 | cvt(z) << 16 | cvt(w) << 24, each through the saturating clamp' % len(paths))

    def match_packed(inst, s_, chan_terms, fname):
        if len(s_.paths) == 1:
            match_channels(inst, s_.value('ret'), chan_terms, fname)
        else:
            match_channels_paths(inst, s_.values('ret'), chan_terms, fname)

    # ---- cvt_uint32(vec4f)
    inst = 'cvt_uint32(vec4f) [%s]' % U.cfg
    s4 = U.summary(R, inst, 'K_cvt4', VEC)
    if s4 is not None and cvt is not None:
        n += 1
        try:
            match_packed(inst, s4, [sym('v[%d]' % (4 * k)) for k in range(4)], 'cvt_uint32(vec4f)')
        except Undecided as e:
            ctx.undecided(R, inst, str(e), VEC)
    def guarded_slot(s_, slot):
        out = []
        for g_, t_ in s_.values(slot):
            out += I.cases(t_, g_)
        return out

    def sel_of(s_, slot):
        """one term for a slot: its value, or - when the paths differ - a select over the path guards (paths partition the inputs)"""
        if len(s_.paths) == 1:
            return s_.value(slot)
        vs_ = s_.values(slot)
        if len(vs_) == len(s_.paths) and all(sp.expand(t_ - vs_[0][1]) == 0 for _, t_ in vs_[1:]):
            return vs_[0][1]              # the same term on every path
        cs_ = guarded_slot(s_, slot)
        t_ = cs_[-1][1]
        for g_, v_ in reversed(cs_[:-1]):
            t_ = I.mk_sel(I.b_and(*g_), v_, t_)
        return t_

    # ---- linear_to_srgba
    inst = 'linear_to_srgba [%s]' % U.cfg
    sg = U.summary(R, inst, 'K_srgb', RKMATH)
    sa = U.summary(R, inst, 'K_srgba', VEC)
    chans = None
    if sg is not None and sa is not None:
        n += 1
        try:
            g1 = sel_of(sg, 'ret')
            probs, und = [], []
            chans = []
            for k in range(4):
                ck = sym('c[%d]' % (4 * k))
                slot = 'out[%d]' % (4 * k)
                if k < 3:
                    t = g1.xreplace({f: ck})          # the compact per-channel term (equality with the output slot is checked next)
                    chans.append(t)
                    if not I.equal_guarded(sa.values(slot), [((), t)])[0]:
                        t = sel_of(sa, slot)
                        dep = sorted(map(str, t.free_symbols))
                        probs.append(('channel-%s' % 'xyz'[k], 'output channel %s is %s, expected linear_to_srgb(c.%s) (depends on %s)'
                                      % ('xyz'[k], t, 'xyz'[k], dep)))
                else:
                    t = sel_of(sa, slot)
                    chans.append(t)
                    if I.atoms(t, 'pow') or any(a.func.__name__ in ('pow', 'exp', 'log') for a in I.all_atoms(t)):
                        probs.append(('alpha-gamma', 'alpha is gamma-corrected: %s' % t))
                        continue
                    L = order_lits(True)
                    for g, v in guarded_slot(sa, slot):
                        G = list(g)
                        if not I.in_order_vocabulary([l_ for l_ in G if l_.free_symbols & {ck}]):
                            continue
                        if not (I.equal(v, ck) or v == 0):
                            und.append('alpha case `%s` yields %s' % (show_guard(g), v))
                        elif I.consistent(G + [L['lt'](v, 0)]):
                            probs.append(('alpha', 'alpha case `%s` yields %s, which may be negative' % (show_guard(g), v)))
                        elif I.consistent(G + [L['le'](0, ck), L['ne'](v, ck)]):
                            probs.append(('alpha', 'alpha case `%s` yields %s although c.w >= 0' % (show_guard(g), v)))
            report(ctx, R, inst, VEC, key('linear_to_srgba', ''), probs, und,
                   'x,y,z = linear_to_srgb of the same channel; w = max(c.w, 0) without gamma')
            if probs or und:
                chans = None
        except (Undecided, KeyError) as e:
            ctx.undecided(R, inst, 'output slots: %s' % e, VEC)
            chans = None
    # ---- linear_to_srgb: a monotone transfer curve made of increasing pieces that do not step down where they meet
    inst = 'linear_to_srgb [%s]' % U.cfg
    if sg is not None:
        n += 1
        try:
            probs, und = [], []
            pieces = []
            for g, t in guarded(sg):
                g = list(g)
                lo_b, hi_b = -sp.oo, sp.oo
                okg = True
                for l_ in g:
                    pp = I._lit_parts(l_)
                    if pp is None or pp[0] not in ('olt', 'ole') or not ({pp[1], pp[2]} & {f}) or not (pp[1].is_Number or pp[2].is_Number):
                        okg = False
                        break
                    _, x_, y_, neg_ = pp
                    # x < y / x <= y ; negated: x >= y / x > y
                    if x_ == f:
                        if neg_:
                            lo_b = max(lo_b, y_)
                        else:
                            hi_b = min(hi_b, y_)
                    else:
                        if neg_:
                            hi_b = min(hi_b, x_)
                        else:
                            lo_b = max(lo_b, x_)
                if not okg:
                    und.append('case `%s` is not an interval of f' % show_guard(g))
                    continue
                if lo_b >= hi_b and not (lo_b == hi_b):
                    continue
                kind = None
                pw = I.atoms(t, 'pow')
                if t.is_Number:
                    kind = 'constant'
                    if t == 0 and hi_b > 0 and I.consistent(g + [I.flit('olt', 0, f)]):
                        probs.append(('zero', 'case `%s` returns 0 for positive input' % show_guard(g)))
                elif not I.all_atoms(t) and t.free_symbols <= {f} and sp.Poly(t, f).degree() <= 1:
                    kind = 'linear'
                    if sp.Poly(t, f).coeff_monomial(f) < 0:
                        probs.append(('decreasing', 'case `%s`: %s decreases with f' % (show_guard(g), t)))
                elif len(pw) == 1 and len(I.all_atoms(t)) == 1 and pw[0].args[1].is_Rational and pw[0].args[1] > 0 and pw[0].args[0] == f:
                    kq = sp.Poly(t.xreplace({pw[0]: sp.Symbol('_P')}), sp.Symbol('_P'))
                    if kq.degree() == 1 and kq.coeff_monomial(sp.Symbol('_P')).is_Rational:
                        kind = 'power'
                        if kq.coeff_monomial(sp.Symbol('_P')) < 0:
                            probs.append(('decreasing', 'case `%s`: %s decreases with f' % (show_guard(g), t)))
                        if lo_b < 0:
                            probs.append(('negative-base', 'case `%s` raises f, which may be negative, to a fractional power: pow(f, %s) is NaN for every '
                                          'f < 0 instead of the saturated value 0 (not saturating, and linear_to_srgb(-x) <= linear_to_srgb(0) '
                                          'fails: not monotone); the NaN is unordered, so the comparisons of a later clamp(., 0, 1) pass it '
                                          'through and the float -> integer conversion of the packing receives NaN (undefined; the SSE '
                                          'conversions give 0x80000000, whose bit 31 lands in another channel\'s byte) - negative inputs '
                                          'must be clamped to 0 before the power' % (show_guard(g), pw[0].args[1])))
                if kind is None:
                    und.append('case `%s` returns %s: not a constant, a*f + b or k*pow(f, g) + m' % (show_guard(g), t))
                    continue
                pieces.append((lo_b, hi_b, t, g))
            if not und:
                pieces.sort(key=lambda p_: (p_[0], p_[1]))
                val = lambda t_, B_: sp.N(t_.xreplace({f: B_}).replace(lambda z: I.is_app(z, 'pow'), lambda z: sp.Pow(z.args[0], z.args[1])), 40)
                for p1, p2 in zip(pieces, pieces[1:]):
                    if p1[1] != p2[0]:
                        und.append('the pieces do not tile the input range (%s .. %s, then %s .. %s)' % (p1[0], p1[1], p2[0], p2[1]))
                        break
                    B_ = p1[1]
                    left, right = val(p1[2], B_), val(p2[2], B_)
                    if right < left - sp.Rational(1, 2 ** 12):
                        probs.append(('not-monotone', 'at f = %s (%.7g) the curve steps down from %.6g (piece %s) to %.6g (piece %s): a brighter '
                                      'linear value is encoded as a smaller one (8-bit codes %d -> %d); the pieces of a transfer curve must meet '
                                      'without a downward step - this breakpoint does not belong to these two pieces'
                                      % (B_, float(B_), float(left), p1[2], float(right), p2[2], round(255 * float(min(max(left, 0), 1))),
                                         round(255 * float(min(max(right, 0), 1))))))
            report(ctx, R, inst, RKMATH, '%s|%s|linear_to_srgb|' % (R, RKMATH), probs, und,
                   '%d increasing pieces (%s) that meet without a downward step' % (len(pieces), ', '.join(str(p_[2]) for p_ in pieces)))
        except (Undecided, sp.PolynomialError) as e:
            ctx.undecided(R, inst, str(e), RKMATH)
    # ---- linear_to_srgba8 = cvt_uint32(linear_to_srgba(c))
    inst = 'linear_to_srgba8 [%s]' % U.cfg
    s8 = U.summary(R, inst, 'K_srgba8', VEC)
    if s8 is not None and cvt is not None and chans is not None:
        n += 1
        try:
            match_packed(inst, s8, chans, 'linear_to_srgba8')
        except Undecided as e:
            ctx.undecided(R, inst, str(e), VEC)
    return n


# ============================================================================================
#  R-C07-5  distributions
# ============================================================================================
def only_reads(t, prefixes):
    """names of free symbols of t that do not start with one of the prefixes"""
    return sorted(str(z) for z in t.free_symbols if not str(z).startswith(tuple(prefixes)))


def rounding_amplification(U, slot_lo, slot_diff):
    """constructor and operator() of pcg32_biased_float_distribution composed, every rounded operation k written X_k*(1+d_k):
    the gain G_k = (d result / d d_k) / X_k is the factor by which the absolute rounding error of X_k reaches the result.
    An X_k that can be denormal (absolute error up to 2^-150 whatever its size) must not have a gain above 1, otherwise that error
    is blown up relative to the width of [lower, upper].  -> None | (kind, message) | 'reason it is undecided'"""
    lo, hi = sym('lo'), sym('hi')
    try:
        scr = U.mod.function('K_pcg_ctor').summary(rounding=True)
        sor = U.mod.function('K_pcg_call').summary(rounding=True, max_unroll=LOOP_LIMIT)
        M = scr.value(slot_diff)
        ren = lambda e: e.xreplace({z: sp.Symbol('_c' + z.name[2:], real=True) for z in e.free_symbols if z.name.startswith('_d')})
        ret = ren(sor.value('ret'))
        w, rho = sp.Symbol('width', positive=True), sp.Symbol('rng', positive=True)
        rhos = I.atoms(ret, prefix='uitofp_') or I.atoms(ret, prefix='sitofp_')
        if len(rhos) != 1:
            return 'generator output not identified in %s' % ret
        comp = lambda e: e.xreplace({sym(slot_diff): M, sym(slot_lo): lo}).xreplace({rhos[0]: rho}).xreplace({hi: lo + w})
        R_ = comp(ret)
        ops = [(nm, comp(t)) for nm, t in scr.paths[0].fpvals if nm] + [('_c' + nm[2:], comp(ren(t))) for nm, t in sor.paths[0].fpvals if nm]
        ds = [z for z in R_.free_symbols if z.name.startswith(('_d', '_c'))]
        zero = {z: 0 for z in ds}
        for nm, X in ops:
            dk = [z for z in ds if z.name == nm]
            if not dk:
                continue
            X0 = sp.cancel(sp.together(X.xreplace(zero)))
            if X0 == 0:
                continue
            G = sp.cancel(sp.together(sp.diff(R_, dk[0]).xreplace(zero) / X0))
            # can X be denormal?  X0 = c * width^a * rng^b over width >= 2^-126, rng >= 1
            Px = sp.Poly(sp.expand(X0), w, rho) if not (X0.free_symbols - {w, rho}) else None
            if Px is None or len(Px.terms()) != 1:
                continue              # involves `lower` (the final sum) or is not a monomial: not scaled afterwards / not analysed
            (a_, b_), c_ = Px.terms()[0]
            if not (a_ >= 1 and c_.is_Rational and abs(c_) * sp.Rational(1, 2 ** 126) ** a_ < sp.Rational(1, 2 ** 126)):
                continue
            if G.free_symbols - {rho}:
                return 'gain %s of the intermediate %s' % (G, X0)
            Pg = sp.Poly(sp.expand(G), rho)
            gmax = sum(abs(cc) * sp.Integer(2 ** 32) ** mm[0] for mm, cc in Pg.terms())
            if gmax > 1:
                return ('denormal-prescale', 'the rounded intermediate `%s` is smaller than the width of the range (it is denormal for widths '
                        'below 2^%d, where it is rounded to a multiple of 2^-149 with up to 50%% relative error) and is afterwards multiplied '
                        'by up to %s: that rounding error is scaled up with it, so draws overshoot upper by a sizeable fraction of the width; '
                        'the 2^-32 factor has to be applied to the generator output (which is never denormal), not folded into the stored width'
                        % (X0.xreplace({w: sp.Symbol('(upper-lower)')}), -126 - I_log2(abs(c_)), gmax))
        return None
    except (Undecided, KeyError, sp.PolynomialError) as e:
        return 'rounding-amplification analysis: %s' % e


def I_log2(q):
    return log2_floor(q)


LOOP_LIMIT = 8      # a distribution member that goes round a loop more often than this on input-dependent tests is not decided


def degenerate_range_loop(U, kname, members, width=None, hyp=None):
    """Does the call operator return for a degenerate range lower == upper?  members = (slot of lower, slot of upper, slot of the
    stored width), width = the constructor's value of the stored width in (lo, hi).
    The operator is executed symbolically with at most 3 trips round any loop; paths still inside a loop after that are set aside.
    If there are such paths, every test that leaves the loop is examined under the hypothesis lower = upper = lo (stored width =
    width at hi := lo; none of the three members is written in the loop): when each of them is refuted there whatever the
    generator state is (the state symbols are unconstrained inputs, so the first trip stands for every trip), and the continue
    conditions hold, no trip ever leaves the loop.
    -> None (no input-dependent loop, or the degenerate range leaves it) | (kind, message) | 'reason it is undecided'"""
    lo, hi = sym('lo'), sym('hi')
    try:
        s = U.mod.function(kname).summary(max_unroll=3, cut_loops=True)
    except (Undecided, KeyError):
        return None                   # reported by the ordinary summary
    if not s.cut:
        return None
    try:
        written = [k for k in s.slots() if k != 'ret']
        for p_ in s.cut:
            written += [k for k in s.path_slots(p_) if k != 'ret']
        if any(m in written for m in members):
            return 'the loop through %s writes the range members %s' % (s.cut[0].cut[1], sorted(set(written) & set(members)))
        if hyp is not None:          # members = (lower, upper) + the further members the constructor derives from the bounds
            H = {sym(k): sp.expand(v.xreplace({hi: lo})) for k, v in hyp.items()}
        else:
            H = {sym(members[0]): lo, sym(members[1]): lo, sym(members[2]): sp.expand(width.xreplace({hi: lo}))}
        sub = lambda g: [I.refold(l.xreplace(H)) for l in g]
        exits = [sub(p_.guard) for p_ in s.paths]
        stays = [sub(p_.guard) for p_ in s.cut]
        if any(I.consistent(g) for g in exits):
            return None               # some trip can leave the loop for lower == upper
        if not any(I.consistent(g) for g in stays):
            return None
        g0 = s.paths[0].guard
        test = I.neg(g0[-1]) if g0 else None
        if hyp is not None:
            names = {sym(k): sp.Symbol('lower' if v == lo else 'upper') for k, v in hyp.items() if v in (lo, hi)}
        else:
            names = {sym(members[0]): sp.Symbol('lower'), sym(members[1]): sp.Symbol('upper'), sym(members[2]): sp.Symbol('width')}
        draws = [z for z in I.all_atoms(test) if z.func.__name__.startswith(('uitofp_', 'sitofp_'))]
        names.update({z: sp.Symbol('rng()') for z in draws[:1]})
        return ('never-returns', 'the loop through %s is only left when `%s` fails; for a degenerate range lower == upper (width 0) the '
                'test reads `%s`, which holds whatever the generator returns - the draw lower + t * 0 equals both bounds - so '
                'operator() redraws forever and never returns the one value of the range [lower, lower] (e.g. a jitter amplitude of 0)'
                % (s.cut[0].cut[1], brief(test.xreplace(names)), brief(I.refold(test.xreplace(H)))))
    except Undecided as e:
        return 'loop analysis: %s' % e


def brief(t, n=160):
    t = str(t)
    return t if len(t) <= n else t[:n - 20] + ' ... ' + t[-15:]


def check_distributions(ctx, U):
    R = 'R-C07-5'
    n = 0
    lo, hi = sym('lo'), sym('hi')
    PCG = 'pcg32_biased_float_distribution'
    key = lambda fn, d: '%s|%s|%s|%s' % (R, RANDOM, fn, d)
    # ---- constructor: members lower, upper, diff
    inst = '%s constructor [%s]' % (PCG, U.cfg)
    sc = U.summary(R, inst, 'K_pcg_ctor', RANDOM, banned_key=key(PCG, 'impure'))
    slot_lo = slot_hi = slot_diff = None
    cdiff = sp.Integer(1)
    if sc is not None:
        n += 1
        try:
            outs = {k: v for k, v in sc.outs().items() if k.startswith('d[')}
            fl = {k: sc.value(k) for k in outs}
            los = [k for k, t in fl.items() if t == lo]
            his = [k for k, t in fl.items() if t == hi]
            others = [k for k, t in fl.items() if (lo in t.free_symbols or hi in t.free_symbols) and k not in los + his]
            if len(los) != 1 or len(his) != 1 or len(others) != 1:
                ctx.undecided(R, inst, 'members written from lower/upper: %s' % {k: str(fl[k]) for k in los + his + others}, RANDOM)
            else:
                slot_lo, slot_hi, slot_diff = los[0], his[0], others[0]
                d = fl[slot_diff]
                cd_ = sp.cancel(d / (hi - lo)) if not unknown_atoms(d, ()) else None
                if cd_ is not None and cd_.is_Rational and cd_ > 0:
                    cdiff = cd_          # stored width = cdiff * (upper - lower); operator() must supply the rest of 2^-32
                if cd_ is not None and cd_.is_Rational and cd_ > 0 and cd_ != 1:
                    ctx.ok(R, inst, 'lower=%s upper=%s stored width=%s * (upper - lower)' % (los[0], his[0], cd_), RANDOM)
                elif I.equal(d, hi - lo):
                    extra = only_reads(sp.Add(*[fl[k] for k in fl]), ('lo', 'hi', 'seed', 'seq'))
                    if extra:
                        ctx.violation(R, inst, 'constructor state depends on %s besides its arguments' % extra, RANDOM, key=key(PCG, 'impure'))
                    else:
                        ctx.ok(R, inst, 'lower=%s upper=%s diff=%s; generator state from (seed, sequence) only' % (los[0], his[0], d), RANDOM)
                elif unknown_atoms(d, ()):
                    ctx.undecided(R, inst, 'diff = %s' % d, RANDOM)
                else:
                    ctx.violation(R, inst, 'diff is initialised to %s, not upper - lower: results leave [lower, upper]' % d, RANDOM,
                                  key=key(PCG, 'diff'))
        except Undecided as e:
            ctx.undecided(R, inst, str(e), RANDOM)
    # ---- operator()
    inst = '%s::operator() [%s]' % (PCG, U.cfg)
    if slot_lo is not None and sc is not None:
        # every range returns a value: a loop in the call operator must be left for lower == upper too
        lp = degenerate_range_loop(U, 'K_pcg_call', (slot_lo, slot_hi, slot_diff), sc.value(slot_diff))
        if isinstance(lp, tuple):
            ctx.violation(R, inst, lp[1], RANDOM, key=key(PCG + '::operator()', lp[0]))
        elif lp:
            ctx.undecided(R, inst, lp, RANDOM)
    so = U.summary(R, inst, 'K_pcg_call', RANDOM, banned_key=key(PCG, 'impure'), max_unroll=LOOP_LIMIT)
    sr = U.summary(R, inst, 'K_pcg_raw', RANDOM)
    if so is not None and sr is not None and slot_lo is not None:
        n += 1
        try:
            t = so.value('ret')
            raw = sr.value('ret')
            dl, dd = sym(slot_lo), sym(slot_diff)
            probs, und = [], []
            bad_reads = [z for z in only_reads(t, ('d[',))]
            for slot in so.slots():
                if slot != 'ret':
                    bad_reads += only_reads(so.value(slot), ('d[',))
            if bad_reads:
                probs.append(('impure', 'reads %s besides the members of the distribution object' % sorted(set(bad_reads))))
            P = sp.Poly(sp.expand(t), dl, dd)
            coeffs = {m: c for m, c in P.terms()}
            c_l = coeffs.pop((1, 0), 0)
            c_d = coeffs.pop((0, 1), 0)
            if coeffs or c_l != 1:
                stray = sorted(str(z) for z in t.free_symbols if str(z).startswith('d[') and z not in (dl, dd)
                               and z not in raw.free_symbols)
                probs.append(('form', 'result %s is not lower + t * diff (lower at %s, diff at %s%s)'
                              % (t, slot_lo, slot_diff, '; also reads %s' % stray if stray else '')))
            else:
                g = sp.expand(c_d * cdiff * 2 ** 32)
                want = I.atom('uitofp_32', raw)
                if I.equal(g, want) or I.equal(g, raw):
                    pass
                else:
                    ratio = sp.cancel(g / want)
                    if ratio.is_Rational:
                        probs.append(('scale', 't = %s * rng(): the scale is not 2^-32, so t leaves [0, 1)' % (ratio / 2 ** 32)))
                    elif I.atoms(g, 'sitofp_32'):
                        probs.append(('scale', 'the generator output is converted as a signed integer: t can be negative'))
                    else:
                        und.append('t = %s is not 2^-32 * rng() with rng() = %s' % (c_d, raw))
            if not probs and not und:
                amp = rounding_amplification(U, slot_lo, slot_diff)
                if isinstance(amp, str):
                    und.append(amp)
                elif amp:
                    probs.append(amp)
            report(ctx, R, inst, RANDOM, key(PCG + '::operator()', ''), probs, und,
                   'lower + width * (2^-32 * rng()), rng() = the pcg32 output of the own state; reads only its members; no rounded '
                   'intermediate that can be denormal is scaled up afterwards')
        except (Undecided, sp.PolynomialError) as e:
            ctx.undecided(R, inst, str(e), RANDOM)
    # ---- uniform_real_distribution
    URD = 'uniform_real_distribution'
    inst = '%s constructor [%s]' % (URD, U.cfg)
    su = U.summary(R, inst, 'K_urd_ctor', RANDOM)
    # The constructor may keep the bounds themselves or anything computed from them (the width, a scale): what is required of it is
    # only that every member is a function of the two bounds; operator() is then judged on the composition constructor o operator(),
    # which must be lower + k * (upper - lower) - a constructor that swaps, drops or mis-derives a bound shows up there.
    ctor_members = None          # float instantiation: member slot -> value in (lo, hi)
    if su is not None:
        n += 1
        try:
            fl = {k: su.value(k) for k in su.slots() if k.startswith('d[')}
            foreign = [k for k, t in fl.items() if only_reads(t, ('lo', 'hi'))]
            opaque = [k for k, t in fl.items() if I.opaque_atoms(t)]
            if foreign:
                ctx.undecided(R, inst, 'members %s depend on something other than the two bounds' % foreign, RANDOM)
            elif opaque or not fl:
                ctx.undecided(R, inst, 'members %s' % {k: str(v) for k, v in fl.items()}, RANDOM)
            else:
                ctor_members = fl
                ctx.ok(R, inst, 'members determined by the bounds: %s (their use is decided with operator())'
                       % {k: str(v) for k, v in fl.items()}, RANDOM)
        except Undecided as e:
            ctx.undecided(R, inst, str(e), RANDOM)
    ctor_members_d = None
    sud = U.summary(R, '%s<double> constructor [%s]' % (URD, U.cfg), 'K_urd_ctor_d', RANDOM)
    if sud is not None:
        try:
            fd = {k: sud.value(k) for k in sud.slots() if k.startswith('d[')}
            if fd and not any(only_reads(t, ('lo', 'hi')) or I.opaque_atoms(t) for t in fd.values()):
                ctor_members_d = fd
        except Undecided:
            pass
    GEN32 = dict(span=1024, mn=16, mx=1040, conv='uitofp_32')
    GEN64 = dict(span=2 ** 40 + 1024, mn=16, mx=2 ** 40 + 1040, conv='uitofp_64')
    for kname, what, gen, off_hi in (('K_urd_gen', 'uniform_real_distribution<float>(RkvGen)', GEN32, 4),
                                     ('K_urd_gen_d', 'uniform_real_distribution<double>(RkvGen)', GEN32, 8),
                                     ('K_urd_gen64', 'uniform_real_distribution<float>(RkvGen64)', GEN64, 4),
                                     ('K_urd_gen64_d', 'uniform_real_distribution<double>(RkvGen64)', GEN64, 8),
                                     ('K_urd_pcg', 'uniform_real_distribution<float>(pcg32)', 'pcg', 4)):
        inst = '%s [%s]' % (what, U.cfg)
        cm = ctor_members if off_hi == 4 else ctor_members_d
        if cm is not None:
            lp = degenerate_range_loop(U, kname, tuple(sorted(cm)), hyp=cm)
            if isinstance(lp, tuple):
                ctx.violation(R, inst, lp[1], RANDOM, key=key(URD + '::operator()', lp[0]))
            elif lp:
                ctx.undecided(R, inst, lp, RANDOM)
        s = U.summary(R, inst, kname, RANDOM, banned_key=key(URD, 'impure'), max_unroll=LOOP_LIMIT)
        if s is None or cm is None:
            continue
        n += 1
        try:
            l, u = lo, hi
            probs, und = [], []
            # members written by operator() itself: state that survives into the next call
            written = set()
            for p in s.paths:
                written |= {k for k in s.path_slots(p) if k.startswith('d[')}
            rets = []
            for g, t0 in s.values('ret'):
                rets += I.cases(t0, g)
            for g, t in rets:
                members = sorted(str(z) for z in t.free_symbols if str(z).startswith('d['))
                carried = [m_ for m_ in members if m_ in written]
                if carried:
                    probs.append(('stale-state', 'on the path `%s` the returned value is computed from member %s, which operator() itself '
                                  'writes (a value cached by an earlier call, computed from that call\'s generator): the result depends on the '
                                  'call history instead of on l, u and this call\'s generator alone - e.g. a scale cached for one engine '
                                  'type is reused for an engine with another range, and the values leave [l, u]' % (show_guard(g), ', '.join(carried))))
                    continue
                bad = only_reads(t, ('d[', 'g['))
                if bad:
                    probs.append(('impure', 'reads %s besides the distribution members and the generator' % bad))
                # every member is written by the constructor only: substitute what it stored (a function of the bounds)
                if all(m_ in cm for m_ in members):
                    t = t.xreplace({sym(m_): cm[m_] for m_ in members})
                else:
                    und.append('result reads member(s) %s, which the constructor does not set' % [m_ for m_ in members if m_ not in cm])
                    continue
                if t.has(sp.zoo) or t.has(sp.nan) or t.has(sp.oo):
                    gname = what[what.index('(') + 1:-1]
                    probs.append(('zero-divisor', 'the scale is a division by the constant 0 for the generator %s: the divisor derived from '
                                  'g.max() - g.min() is evaluated in the generator\'s result type, where anything added to the full-range span '
                                  '%s wraps (max - min + 1 = 2^N = 0), so scale = (u - l) / 0 = inf and every draw is +-inf, or NaN when the '
                                  'generator returns its minimum - far outside [l, u]; the count of values has to be formed in T, not in '
                                  'result_type' % (gname, '2^32 - 1' if gen == 'pcg' else gen['span'])))
                    continue
                P = sp.Poly(sp.expand(t), l, u)
                co = {m: c for m, c in P.terms()}
                cu = co.pop((0, 1), 0)
                cl = co.pop((1, 0), 0)
                if co or not I.equal(cl, 1 - cu):
                    probs.append(('form', 'result %s (constructor and operator() composed, lo / hi = the bounds given to the constructor) is not '
                                  'lo + k * (hi - lo)' % t))
                    continue
                if gen != 'pcg':
                    span, mn, v = gen['span'], gen['mn'], sym('g[0]')
                    want = I.atom(gen['conv'], v - mn)
                    k = sp.expand(cu)
                    r = sp.cancel(k / want)
                    tol = sp.Rational(span, 2 ** (23 if off_hi == 4 else 52))     # T(max - min) is rounded to T once
                    if I.equal(k * span, v - mn):
                        pass
                    elif r.is_Rational and r > 0 and span < 1 / r <= span + 1 + tol:
                        pass        # divides by the number of values max - min + 1 (half-open [l, u)): every draw stays inside [l, u]
                    elif r.is_Rational and r > 0 and 1 / r > span + 1 + tol:
                        und.append('k = (g - min) / %s with the generator span %s: the draws stay inside [l, u] but cover only the lower '
                                   '%.4g of it - not decided' % (1 / r, span, float(span * r)))
                    elif r.is_Rational and r > 0:
                        used = 1 / r
                        if abs(used - span) > tol:
                            how = ''
                            if used == span % 2 ** 32:
                                how = ' - that is the span truncated to 32 bits (its low 32 bits), although the generator delivers %d bits' \
                                      % (span.bit_length())
                            probs.append(('span', 'k = (g - min) / %s; the span max - min of the generator is %s%s: the values leave [l, u] by '
                                          'the factor %.4g' % (used, span, how, float(span / used))))
                    elif any(I.equal(k * span, I.atom(gen['conv'], v - m2)) for m2 in (0, gen['mx'])):
                        probs.append(('min', 'k = %s does not subtract the generator minimum' % cu))
                    elif r.is_Rational and r < 0:
                        probs.append(('direction', 'result is lo + k * (hi - lo) with k = %s <= 0: the values run from the lower bound away '
                                      'from the upper bound (the width enters with the wrong sign) and leave [l, u]' % cu))
                    elif sp.cancel((k - 1) / want).is_Rational:
                        probs.append(('offset', 'result is lo + k * (hi - lo) with k = %s >= 1: the draw starts at the upper bound instead '
                                      'of the lower one, so the values lie in [u, u + (u - l)]' % cu))
                    else:
                        und.append('k = %s' % cu)
                else:
                    raw = sr.value('ret').xreplace({sym('d[0]'): sym('g[0]'), sym('d[8]'): sym('g[8]')}) if sr is not None else None
                    want = I.atom('uitofp_32', raw)
                    k = sp.cancel(cu / want) if raw is not None else None
                    if k is not None and k.is_Rational and k < 0:
                        probs.append(('direction', 'result is lo + k * (hi - lo) with k = %s * rng() <= 0: the values run from the lower bound '
                                      'away from the upper bound and leave [l, u]' % k))
                    elif raw is not None and sp.cancel((cu - 1) / want).is_Rational:
                        probs.append(('offset', 'result is lo + k * (hi - lo) with k = 1 + %s * rng(): the draw starts at the upper bound '
                                      'instead of the lower one' % sp.cancel((cu - 1) / want)))
                    elif k is None or not k.is_Rational:
                        und.append('k = %s' % cu)
                    elif not (sp.Rational(1, 2 ** 32) <= k <= sp.Rational(1, 2 ** 32 - 2 ** 9)):
                        probs.append(('span', 'k = rng() * %s; expected rng() / (max - min) with max - min = 2^32 - 1' % k))
            report(ctx, R, inst, RANDOM, key(URD + '::operator()', ''), probs, und,
                   'l + (u - l) * (g() - min) / (max - min); reads only l, u and the generator; keeps no state between calls')
        except (Undecided, sp.PolynomialError) as e:
            ctx.undecided(R, inst, str(e), RANDOM)
    return n


# ============================================================================================
#  R-C07-5 (AST part): who reads what
# ============================================================================================
PURE_EXTERNAL = re.compile(r'^(std::(forward|move|addressof|min|max|abs|fabs|numeric_limits<.*>::\w+)|'
                           r'(std::|::)?(pow|sqrt|round|floor|ceil|trunc|rint|nearbyint|exp|exp2|log|log2|fabs|fmin|fmax|copysign)[fl]?|'
                           r'__assert_fail|__assert|__assert_rtn|abort|_mm_\w+|__builtin_(unreachable|trap|expect|assume|ia32_\w+|\w*(pow|sqrt|round|floor|ceil|fabs|fmin|fmax|copysign)[fl]?))$')
PACKING_FNS = re.compile(r'^rkcommon::math::(linear_to_srgb|linear_to_srgba|linear_to_srgba8|cvt_uint32)$')


def check_purity_ast(ctx, simd, R='R-C07-5'):
    """transitive callees of the distribution members (R-C07-5) / of the colour packing functions (R-C07-4) reference no variable
    with static storage (other than compile-time constants) and call nothing outside the analysed sources except a few pure std
    helpers: the result is a function of the arguments (and, for the distributions, the seed-derived members) alone"""
    tu = ctx.front.parse(DRIVER, 'TBB', simd=simd)
    if R == 'R-C07-5':
        roots = [f for f in tu.functions.values() if not f['dep'] and (
            f['q'].startswith('rkcommon::utility::pcg32_biased_float_distribution::')
            or f['q'].startswith('rkcommon::utility::uniform_real_distribution<'))]
        tail = ': the result is not a function of the seed-derived state alone'
    else:
        roots = [f for f in tu.functions.values() if not f['dep'] and PACKING_FNS.match(f['q']) and tu.body(f) is not None]
        tail = (': the packed value is not a function of the colour passed in alone - state kept between calls in a variable with static '
                'storage is shared by every thread that converts pixels, and its unsynchronised stores let one caller receive the bytes '
                'computed for another caller\'s colour (per-channel / saturating / monotone are statements about a pure function)')
    n = 0
    for root in roots:
        n += 1
        pname = re.sub(r'<[^<>]*(<[^<>]*>[^<>]*)*>', '', root['q']).replace('rkcommon::utility::', '').replace('rkcommon::math::', '')
        inst = 'purity of %s %s [%s]' % (root['q'].replace('rkcommon::utility::', '').replace('rkcommon::math::', '')[:60], root['fty'][:40],
                                        cfgname(simd))
        key = '%s|%s|%s|impure' % (R, RANDOM if R == 'R-C07-5' else os.path.normpath(tu.fn_file(root)), pname)
        seen = {}
        work = [(root, [pname])]
        probs, und = [], []
        while work:
            fn, chain = work.pop()
            if fn['id'] in seen:
                continue
            seen[fn['id']] = fn
            top = tu.node(fn['id']) or tu.body(fn)
            if top is None:
                und.append('no body for %s' % fn['q'])
                continue
            for x in tu.walk(top):
                if 'id' not in x:
                    continue
                sd = tu.sd(x)
                if sd.get('k') in ('call', 'ctor'):
                    c = tu.callee_fn(x)
                    q = sd.get('q', '?')
                    if c is not None:
                        work.append((c, chain + [q.split('::')[-1]]))
                    elif BANNED.search(q.replace('::', '_')):
                        probs.append('%s calls %s (at %s)' % (' -> '.join(chain), q, tu.loc(x)))
                    elif not PURE_EXTERNAL.match(q) and not sd.get('implicit') and sd.get('k') == 'call':
                        und.append('%s calls %s, whose body is not in the analysed sources (at %s)' % (' -> '.join(chain), q, tu.loc(x)))
                if x.get('kind') == 'DeclRefExpr':
                    rd = x.get('referencedDecl', {})
                    if rd.get('kind') != 'VarDecl':
                        continue
                    d = tu.node(rd['id'])
                    if d is None:
                        probs.append('%s refers to the external variable %s (at %s)' % (' -> '.join(chain), rd.get('name'), tu.loc(x)))
                        continue
                    local = tu.enclosing_fn(d) is not None and d.get('storageClass') != 'static'
                    constant = d.get('constexpr') or d.get('type', {}).get('qualType', '').startswith('const ')
                    ty_ = d.get('type', {})
                    rec_ = tu.records_by_type.get(ty_.get('desugaredQualType') or ty_.get('qualType', '').replace('struct ', ''))
                    if rec_ is not None and not rec_.get('fields') and not rec_.get('bases'):
                        constant = True          # an object of an empty class (a tag such as `zero`, `one`): it holds no state
                    if not local and not constant and d.get('tls'):
                        und.append('%s keeps state in the thread-local variable %s (at %s): per-thread state, coherence of the remembered '
                                   'result not decided' % (' -> '.join(chain), rd.get('name'), tu.loc(x)))
                    elif not local and not constant:
                        probs.append('%s reads or writes the non-local variable %s (at %s)' % (' -> '.join(chain), rd.get('name'), tu.loc(x)))
        for u in und:
            ctx.undecided(R, inst, u, tu.fn_loc(root))
        for pmsg in probs[:1]:
            ctx.violation(R, inst, pmsg + tail, tu.fn_loc(root), key=key,
                          path=probs)
        if not und and not probs:
            ctx.ok(R, inst, '%d functions reachable; only parameters, locals, members and compile-time constants are referenced' % len(seen),
                   tu.fn_loc(root))
    return n


# ============================================================================================
#  R-C07-1 / R-C07-2 (floating-point environment)
# ============================================================================================
FPENV_UNIT = 'rkcommon/tasking/detail/tasking_system_init.cpp'


def check_fp_environment(ctx):
    """The bounds above hold with gradual underflow: the SIMD rsqrt forms a * -0.5, which is denormal for a in [2^-126, 2^-125)
    (R-C07-1 accounts for it with a larger rounding term), and rcp_safe tests the sign of denormal arguments.  With MXCSR
    flush-to-zero / denormals-are-zero these fail (50 % error on that binade, negative denormals read as +0).  The library may set
    these bits only when the application asks for it: initTaskingSystem's flushDenormals defaults to false and every write of
    MXCSR is under that parameter."""
    R = 'R-C07-1'
    inst = 'floating-point environment set up by initTaskingSystem'
    loc0 = 'rkcommon/tasking/tasking_system_init.h'
    key = '%s|%s|initTaskingSystem|' % (R, loc0)
    tu = ctx.front.parse(FPENV_UNIT, 'TBB')
    fns = [f_ for f_ in tu.functions.values() if f_['q'] == 'rkcommon::tasking::initTaskingSystem' and not f_['dep']]
    if not fns:
        ctx.broken('%s: rkcommon::tasking::initTaskingSystem not found in %s' % (R, FPENV_UNIT))
        return 0
    fn = fns[0]
    flags = [p_ for p_ in fn['params'] if p_['ct'] == 'bool']
    if len(flags) != 1:
        ctx.undecided(R, inst, 'cannot identify the flush-denormals parameter', tu.fn_loc(fn))
        return 1
    pname = flags[0]['name']
    # default argument on any declaration
    defaults = []
    for nd in tu.nodes.values():
        if nd.get('kind') == 'FunctionDecl' and nd.get('name') == 'initTaskingSystem':
            bools = [k_ for k_ in nd.get('inner', []) if isinstance(k_, dict) and k_.get('kind') == 'ParmVarDecl' and
                     k_.get('type', {}).get('qualType') == 'bool']
            for k_ in bools:
                for x_ in tu.walk(k_):
                    if x_.get('kind') == 'CXXBoolLiteralExpr':
                        defaults.append(bool(x_.get('value')))
    probs, und = [], []
    if any(defaults):
        probs.append(('flush-denormals-default', 'the parameter `%s` defaults to true: a plain initTaskingSystem() switches MXCSR to '
                      'flush-to-zero / denormals-are-zero for the calling thread, and then (SIMD build) rsqrt(x) for x in [2^-126, 2^-125) loses '
                      'its Newton correction because the intermediate x * -0.5 is a denormal that is flushed to 0 (result 1.5 * estimate, 50 %% '
                      'off instead of within 2^-20), and rcp_safe reads a negative denormal as +0 and returns a positive value' % pname))
    elif not defaults:
        und.append('no default argument found for `%s`' % pname)
    # every write of MXCSR inside the function is guarded by the parameter
    for x in tu.walk(tu.body(fn)):
        if x.get('kind') == 'CallExpr' and 'id' in x and tu.sd(x).get('q') in ('_mm_setcsr', '__builtin_ia32_ldmxcsr'):
            guarded_ = False
            p_ = x
            for _ in range(30):
                q_ = tu.par(p_)
                if q_ is None:
                    break
                if q_.get('kind') == 'IfStmt':
                    parts_ = [y for y in q_.get('inner', []) if isinstance(y, dict) and y.get('kind')]
                    c_ = tu.strip(parts_[0], casts=True) if parts_ else None
                    in_then = len(parts_) > 1 and any(z is p_ or z.get('id') == p_.get('id') for z in [parts_[1]])
                    if c_ is not None and c_.get('kind') == 'BinaryOperator' and c_.get('opcode') in ('==', '!='):
                        l_, r_ = (tu.strip(k_, casts=True) for k_ in tu.kids(c_))
                        lit_ = r_ if l_.get('kind') == 'DeclRefExpr' else l_
                        ref_ = l_ if l_.get('kind') == 'DeclRefExpr' else r_
                        if lit_.get('kind') == 'CXXBoolLiteralExpr' and bool(lit_.get('value')) == (c_.get('opcode') == '=='):
                            c_ = ref_
                    if in_then and c_ is not None and c_.get('kind') == 'DeclRefExpr' and c_.get('referencedDecl', {}).get('name') == pname:
                        guarded_ = True
                        break
                p_ = q_
            if not guarded_:
                probs.append(('flush-unconditional', 'MXCSR is written at %s outside `if (%s)`: flush-to-zero / denormals-are-zero is switched on '
                              'whether or not the application asked for it' % (tu.loc(x), pname)))
    report(ctx, R, inst, loc0, key, probs, und,
           'MXCSR (FTZ / DAZ) is only written under `if (%s)` and the parameter defaults to false: gradual underflow stays on unless requested' % pname)
    return 1


# ============================================================================================
def run(ctx):
    ctx.describe('R-C07-1', 'rcp/rsqrt: relative error is a function of the estimate error and rounding errors alone, bounded < 2^-20')
    ctx.describe('R-C07-2', 'rcp_safe applies rcp to x for |x| >= min_normal and to +-min_normal with the sign of x otherwise')
    ctx.describe('R-C07-3', 'clamp, divRoundUp, sign, lerp, madd, deg2rad equal their definitions')
    ctx.describe('R-C07-4', '8-bit packing: round(255*clamp01) per channel at shifts 0/8/16/24; alpha is not gamma-corrected')
    ctx.describe('R-C07-5', 'float distributions: lower + t*(upper-lower), t = 2^-32*rng() resp. (g-min)/(max-min); members only')
    ctx.assume('float operations are read as real-number operations; every rounded operation has relative error <= 2^-24 '
               '(2^-53 for double): no intermediate under- or overflows, which is what the stated range 2^-126 <= |x| < 2^126 ensures')
    ctx.assume('_mm_rcp_ss / _mm_rsqrt_ss have relative error at most 1.5*2^-12 (Intel SDM)')
    ctx.assume('comparisons are read without NaN operands; -0.0 is not distinguished from +0.0')
    ctx.assume('gradual underflow (MXCSR FTZ / DAZ clear) unless the application passes flushDenormals = true to initTaskingSystem')
    ctx.assume('sqrt / sqrtf are correctly rounded; pow, round, fabs are the C library functions (not analysed)')
    counts = {}
    units = [Unit(ctx, True), Unit(ctx, False)]
    isa, unknown = conditional_configs(ctx)
    for h_, m_ in unknown:
        ctx.undecided('R-C07-1', 'build configurations of %s' % h_, 'code is conditional on the macro %s, for which no build configuration '
                      'is analysed' % m_, h_)
    for label, flags in isa:
        # preprocessor-conditional code in the anchored headers: the clauses must hold in that build as well
        units.append(Unit(ctx, True, flags, 'SIMD+' + label))
        ctx.note('extra build configuration %s (%s): selected by a preprocessor conditional in the anchored headers' % (label, ' '.join(flags)))
    base_units = 2
    for iu, U in enumerate(units):
        for rule, fn in (('R-C07-1', check_refinement), ('R-C07-2', check_rcp_safe), ('R-C07-3', check_definitions),
                         ('R-C07-4', check_packing), ('R-C07-5', check_distributions)):
            counts[rule] = counts.get(rule, 0) + fn(ctx, U)
    check_fp_environment(ctx)
    npure = check_purity_ast(ctx, True)
    ctx.floor('R-C07-5', npure, 5, 'distribution constructors / call operators instantiated by the driver (AST purity)')
    npack = check_purity_ast(ctx, True, 'R-C07-4')
    ctx.floor('R-C07-4', npack, 5, 'colour packing functions in the driver unit (AST purity)')
    ctx.floor('R-C07-1', counts['R-C07-1'], 8, 'rcp/rsqrt x float/double x SIMD/NO_SIMD')
    ctx.floor('R-C07-2', counts['R-C07-2'], 4, 'rcp_safe float/double x 2 builds')
    ctx.floor('R-C07-3', counts['R-C07-3'], 30, '15 kernel instantiations x 2 builds')
    ctx.floor('R-C07-4', counts['R-C07-4'], 10, '5 packing functions x 2 builds')
    ctx.floor('R-C07-5', counts['R-C07-5'], 12, '6 distribution members x 2 builds')
    ctx.extra['ir_units'] = [{'unit': DRIVER, 'config': c} for c in ('TBB+SIMD', 'TBB+NO_SIMD')]
    from rkstatic import selftest
    selftest.run(ctx)
