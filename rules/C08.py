"""C08 - reference counting: every object is destroyed exactly once, by the release of the last reference.

Decided statically (DESIGN.md section 5, C08):
  R-C08-1  per-operation reference accounting.  Every member of IntrusivePtr that touches the pointer member
           is interpreted over its clang CFG (callees of the same class inlined, constructors/destructors of
           local and temporary handles composed) from every entry scenario of the finite pointer domain
           {null, A, B} (this / source / raw argument; aliasing this == &source included).  Tracked per
           pointee: the number of counts held by the handles in scope.  Required on every path:
             * refInc/refDec only through a pointer that is non-null on that path (null guard);
             * no refDec of a count the operation does not hold; nothing touches a pointee after the
               operation released the last count it could rely on (inc-before-dec, self-assignment);
             * at exit  counts held == number of handles in scope pointing at the pointee  (each handle owns
               exactly one count: copy adds one, move transfers, destructor releases);
             * the handle ends up pointing at the source's pointee (null after default construction).
  R-C08-2  counter: std::atomic<integral>, initialised to 1 by every constructor; refInc = exactly one atomic
           increment on every path; refDec = exactly one atomic decrement and `delete this` iff the result of
           that same RMW says the new value is 0 (no separate load); every decrement is a release operation and the
           deleting path acquires before `delete this` (acq_rel/seq_cst decrement, or release + acquire fence / acquire
           load; a relaxed increment is fine); a single non-retried compare_exchange is rejected; useCount returns a
           load; nobody else touches the counter.
  R-C08-3  operator==/!= of handles are decided by identity of the pointer members; operator< is a strict
           order on the pointer members.
  W-C08-1  RefCountedObject cannot be copied/moved with its count (special members deleted, or user-provided
           and then subject to R-C08-2).
  W-C08-2  IntrusivePtr<int> is rejected at compile time (must-fail unit with a compiling control).
  R-C08-4  coverage: every function of the library that names the pointer member, the counter, refInc or
           refDec is one of the members analysed above; every member template pattern has an instantiation.
"""
import re

from rkstatic.interp import ObjInterp, freeze, thaw

LEVEL = 'proof'
EXPLANATION = (
    "Abstract reference accounting over the clang CFG of every instantiated IntrusivePtr member (pointees Obj, "
    "Base, Derived; derived-to-base conversion; all entry scenarios over the pointer domain {null,A,B} with and "
    "without aliasing of *this and the argument; calls to members of the class and constructors/destructors of "
    "local/temporary handles inlined) decides the per-operation invariant 'each handle in scope owns exactly one "
    "count of its pointee, no pointee is touched after the operation gave up the last count it could rely on, "
    "null is never dereferenced'.  A CFG path/normal-form analysis of RefCountedObject decides that the counter is "
    "a std::atomic integer starting at 1, that refInc/refDec perform exactly one atomic RMW and that `delete this` "
    "happens iff that RMW produced 0.  By induction over any history these clauses give useCount == creator's "
    "reference + live handles, and atomicity of the RMW makes the zero-producing decrement unique on any "
    "schedule, hence exactly one destruction, never while a reference remains.  Assumed: handles are not "
    "mutated concurrently with their own use (the usual shared_ptr contract); callers of refInc/refDec own the "
    "counts they release.")

IP = 'rkcommon::memory::IntrusivePtr'
RCO = 'rkcommon::memory::RefCountedObject'
HDR = 'rkcommon/memory/IntrusivePtr.h'
INC, DEC, USE = RCO + '::refInc', RCO + '::refDec', RCO + '::useCount'
OBJS = ('A', 'B')
CALLS = ('CXXMemberCallExpr', 'CXXOperatorCallExpr', 'CallExpr')


def norm_file(p):
    return p.replace('/./', '/')


def strip_targs(q):
    prev = None
    while prev != q:
        prev = q
        q = re.sub(r'<[^<>]*>', '', q)
    return q


def pattern_name(tu, f):
    p = tu.functions.get(f.get('pat')) if f.get('pat') else None
    if p is None:
        p = f
    q = strip_targs(p['q']).replace('rkcommon::memory::', '')
    fty = p['fty'].replace(' noexcept', '')
    if not f.get('pat'):
        fty = re.sub(r'rkcommon::memory::IntrusivePtr<[^<>]*>', 'IntrusivePtr<T>', fty)
    return '%s %s' % (q, fty)


def is_ptr_ct(ct):
    ct = (ct or '').strip()
    return ct.endswith('*') or ct.endswith('*const') or ct.endswith('* const')


def raw_ptr_param(ct):
    """parameter type that is a raw pointer, by value or by (const) reference"""
    t = (ct or '').strip()
    return is_ptr_ct(t.rstrip('&').strip())


def handle_type(ct):
    """canonical IntrusivePtr<...> record type named by a (reference to a) handle type, else None"""
    t = (ct or '').strip()
    if t.startswith('const '):
        t = t[6:]
    t = t.rstrip('&').strip()
    if t.endswith(' const'):
        t = t[:-6]
    return t if t.startswith(IP + '<') and t.endswith('>') else None      # not a type nested in the handle (IntrusivePtr<T>::Tag)


# ============================================================================================
#  R-C08-1 / R-C08-3: reference accounting interpreter
# ============================================================================================
class RefInterp(ObjInterp):
    """state (frozen dict):  <handle object name> -> 'null'|'A'|'B'|'undef'|'gone'
                             'v:<decl id>'        -> value of a raw pointer parameter / local
                             '#A', '#B'           -> counts held by the handles in scope
                             '!A', '!B'           -> pointee may already be destroyed
                             '$ev'                -> tuple of events, for the report"""

    def __init__(self, tu, field_ids, field_name):
        super().__init__(tu)
        self.field_ids = field_ids
        self.field_name = field_name
        self.otype = {}
        self.inlined = {}

    def is_own_fn(self, f):
        if f.get('rec') == IP:
            return True
        if not f.get('rec') and f['q'].startswith('rkcommon::memory::'):
            return any(handle_type(p['ct']) for p in f.get('params', []))
        return False

    # ---------------------------------------------------------------- designators
    def obj_of(self, e, fr):
        o = super().obj_of(e, fr)
        if o is not None:
            return o
        e = self.tu.strip(e, casts=True)
        if e is not None and e.get('kind') in ('CXXConstructExpr', 'CXXTemporaryObjectExpr'):
            return fr_root(fr).temps.get(e['id'])
        return None

    def is_field(self, e):
        return e is not None and e.get('kind') == 'MemberExpr' and self.tu.sd(e).get('d') in self.field_ids

    def loc_of(self, e, fr):
        """('h', handle object) for <obj>.ptr, ('v', decl id) for a raw pointer variable"""
        tu = self.tu
        e = tu.strip(e, casts=True)
        if e is None:
            return None
        if self.is_field(e):
            ks = tu.kids(e)
            o = self.obj_of(ks[0], fr) if ks else fr.env.get('this')
            return ('h', o) if o is not None else ('?', None)
        if e.get('kind') == 'DeclRefExpr':
            d = e.get('referencedDecl', {}).get('id')
            if is_ptr_ct(tu.sd(e).get('ct')) and d is not None:
                return ('v', d)
        return None

    def getloc(self, st, loc):
        d = thaw(st)
        if loc[0] == 'h':
            return d.get(loc[1])
        if loc[0] == 'v':
            return d.get('v:' + loc[1])
        return None

    def setloc(self, st, loc, v):
        d = thaw(st)
        if loc[0] == 'h':
            d[loc[1]] = v
        elif loc[0] == 'v':
            d['v:' + loc[1]] = v
        return freeze(d)

    # ---------------------------------------------------------------- values
    def pval(self, e, st, fr, depth=0):
        """'null' | 'A' | 'B' | 'undef' | ('addr', handle) | None (not understood)"""
        tu = self.tu
        e = tu.strip(e, casts=True)
        if e is None or depth > 12:
            return None
        k = e.get('kind')
        if k in ('CXXNullPtrLiteralExpr', 'GNUNullExpr', 'CXXScalarValueInitExpr', 'ImplicitValueInitExpr'):
            return 'null'
        if k == 'IntegerLiteral':
            return 'null' if e.get('value') == '0' else None
        if k == 'InitListExpr':
            ks = tu.kids(e)
            if not ks:
                return 'null'
            return self.pval(ks[0], st, fr, depth + 1) if len(ks) == 1 else None
        if k == 'CXXThisExpr':
            o = fr.env.get('this')
            return ('addr', o) if o else None
        if k == 'UnaryOperator' and e.get('opcode') == '&':
            # &static_cast<T &>(*handle) / &*p: the address of the pointee reached through a dereference.  A cast between
            # class references adds the base offset unconditionally (no null check, unlike the pointer conversion)
            inner, upcast = tu.kids(e)[0], False
            for _ in range(10):
                if inner is None:
                    break
                ik = inner.get('kind')
                if ik in ('ImplicitCastExpr', 'CXXStaticCastExpr', 'CStyleCastExpr', 'CXXFunctionalCastExpr', 'ParenExpr',
                          'CXXReinterpretCastExpr', 'CXXConstCastExpr'):
                    if inner.get('castKind') in ('DerivedToBase', 'UncheckedDerivedToBase', 'BaseToDerived') or ik == 'CXXReinterpretCastExpr':
                        upcast = True
                    inner = tu.kids(inner)[-1] if tu.kids(inner) else None
                    continue
                break
            deref = None
            if inner is not None and inner.get('kind') == 'UnaryOperator' and inner.get('opcode') == '*' and \
                    is_ptr_ct(tu.sd(tu.strip(tu.kids(inner)[0])).get('ct')):
                deref = self.pval(tu.kids(inner)[0], st, fr, depth + 1)
            elif inner is not None and inner.get('kind') == 'CXXOperatorCallExpr' and tu.sd(inner).get('rec') == IP and \
                    tu.sd(inner).get('q', '').split('::')[-1] == 'operator*':
                vals = self.call_value(inner, st, fr)
                deref = vals[0] if vals and len(set(map(repr, vals))) == 1 else None
            if deref in ('null',) + OBJS:
                if deref == 'null' and upcast and self._cur is not None:
                    self.report('null-reference-cast', 'the pointer is formed as `%s`: an empty handle / null pointer is dereferenced and the '
                                'reference is cast to another class of the hierarchy, which adds the base-class offset without a null check - '
                                'for a base that is not at offset 0 the result is a non-null pointer to no object (an empty handle converts '
                                'to a non-empty one whose refInc/refDec touch memory that is not an object); convert the pointer, not the '
                                'reference' % tu.show(e), e, fr, st)
                return deref
            o = self.obj_of(tu.kids(e)[0], fr)
            return ('addr', o) if o else None
        if k == 'UnaryOperator' and e.get('opcode') == '*':
            return self.pval(tu.kids(e)[0], st, fr, depth + 1)
        if k == 'ConditionalOperator':
            ks = tu.kids(e)
            c = self.eval_bool(ks[0], st, fr)
            if c is True:
                return self.pval(ks[1], st, fr, depth + 1)
            if c is False:
                return self.pval(ks[2], st, fr, depth + 1)
            return None
        loc = self.loc_of(e, fr)
        if loc is not None:
            self.touch_handle(loc, e, st, fr)
            return self.getloc(st, loc)
        if k in CALLS:
            sd, obj, args = tu.call_parts(e)
            q = sd.get('q', '')
            if q in ('std::move', 'std::forward', 'std::addressof') and args:
                if q == 'std::addressof':
                    o = self.obj_of(args[0], fr)
                    return ('addr', o) if o else None
                return self.pval(args[0], st, fr, depth + 1)
            vals = [thaw(st)['$rv:' + str(e['id'])]] if ('$rv:' + str(e['id'])) in thaw(st) else self.call_value(e, st, fr)
            if vals and len(set(map(repr, vals))) == 1:
                v = vals[0]
                if v in ('null', 'undef') + OBJS or (isinstance(v, tuple) and v[0] == 'addr'):
                    return v
        return None

    def eval_bool(self, e, st, fr, depth=0):
        """True | False | ('lt', x, y) | None"""
        tu = self.tu
        e = tu.strip(e, casts=True)
        if e is None or depth > 12:
            return None
        k = e.get('kind')
        if k == 'CXXBoolLiteralExpr':
            return bool(e.get('value'))
        if k == 'UnaryOperator' and e.get('opcode') == '!':
            v = self.eval_bool(tu.kids(e)[0], st, fr, depth + 1)
            if isinstance(v, tuple):
                return ('ge',) + v[1:] if v[0] == 'lt' else ('lt',) + v[1:] if v[0] == 'ge' else None
            return None if v is None else (not v)
        if k == 'BinaryOperator' and e.get('opcode') in ('&&', '||'):
            a = self.eval_bool(tu.kids(e)[0], st, fr, depth + 1)
            b = self.eval_bool(tu.kids(e)[1], st, fr, depth + 1)
            if isinstance(a, tuple) or isinstance(b, tuple):
                return None
            if e['opcode'] == '&&':
                if a is False or b is False:
                    return False
                return True if (a and b) else None
            if a is True or b is True:
                return True
            return False if (a is False and b is False) else None
        if k == 'BinaryOperator' and e.get('opcode') in ('==', '!=', '<', '>', '<=', '>='):
            ks = tu.kids(e)
            self.check_untyped(e, ks, st, fr)
            a = self.pval(ks[0], st, fr)
            b = self.pval(ks[1], st, fr)
            if a is None or b is None or 'undef' in (a, b):
                return None
            return self.compare(e['opcode'], a, b)
        if k == 'ConditionalOperator':
            ks = tu.kids(e)
            c = self.eval_bool(ks[0], st, fr, depth + 1)
            if c is True:
                return self.eval_bool(ks[1], st, fr, depth + 1)
            if c is False:
                return self.eval_bool(ks[2], st, fr, depth + 1)
            return None
        if k in CALLS:
            sd, obj, args = tu.call_parts(e)
            q = sd.get('q', '')
            m = re.match(r'std::(less|greater|less_equal|greater_equal|equal_to|not_equal_to)<.*>::operator\(\)$', q)
            if m and len(args) == 2:
                a = self.pval(args[0], st, fr)
                b = self.pval(args[1], st, fr)
                if a is None or b is None or 'undef' in (a, b):
                    return None
                op = {'less': '<', 'greater': '>', 'less_equal': '<=', 'greater_equal': '>=', 'equal_to': '==',
                      'not_equal_to': '!='}[m.group(1)]
                return self.compare(op, a, b)
            vals = [thaw(st)['$rv:' + str(e['id'])]] if ('$rv:' + str(e['id'])) in thaw(st) else self.call_value(e, st, fr)
            if vals and len(set(map(repr, vals))) == 1 and (isinstance(vals[0], bool) or (
                    isinstance(vals[0], tuple) and vals[0][0] in ('lt', 'ge'))):
                return vals[0]
            return None
        if is_ptr_ct(tu.sd(e).get('ct')):
            v = self.pval(e, st, fr)
            if v == 'null':
                return False
            if v in OBJS or (isinstance(v, tuple) and v[0] == 'addr'):
                return True
        return None

    def check_pointer_cast(self, expr, at, st, fr):
        """the pointer stored into a handle comes from a pointer to ANOTHER class (the pointer member of a handle of a different
        pointee type): it must be converted by the language's pointer conversion (implicit / static_cast derived-to-base), which
        applies the base-class offset.  reinterpret_cast, a C-style cast that is a bit cast, or a round trip through void* keep
        the address unchanged: for a ref-counted base that is not at offset 0 the handle points at the wrong address"""
        tu = self.tu
        if self._cur is None:
            return
        n, bad, final_ct = expr, None, None
        for _ in range(12):
            if n is None:
                break
            k = n.get('kind')
            if k in ('ImplicitCastExpr', 'CXXStaticCastExpr', 'CStyleCastExpr', 'CXXFunctionalCastExpr', 'CXXReinterpretCastExpr',
                     'CXXConstCastExpr', 'ParenExpr', 'ExprWithCleanups', 'MaterializeTemporaryExpr'):
                if final_ct is None and is_ptr_ct(tu.sd(n).get('ct')):
                    final_ct = tu.sd(n).get('ct')
                if k == 'CXXReinterpretCastExpr' or n.get('castKind') == 'BitCast':
                    bad = bad or ('reinterpret_cast' if k == 'CXXReinterpretCastExpr' else
                                  'cast through `%s` (a bit cast)' % tu.sd(n).get('ct'))
                n = tu.kids(n)[-1] if tu.kids(n) else None
                continue
            break
        base = tu.strip(expr, casts=True)
        if bad is None or base is None or not self.is_field(base) or final_ct is None:
            return
        pointee = lambda ct: (ct or '').replace('const', '').replace('volatile', '').replace('*', '').strip()
        src_t, dst_t = pointee(tu.sd(base).get('ct')), pointee(final_ct)
        if src_t and dst_t and src_t != dst_t:
            self.report('unadjusted-pointer-cast', 'the pointer of a handle to `%s` is turned into a `%s *` by a %s: the address is taken over '
                        'unchanged, without the derived-to-base adjustment - when `%s` is not at offset 0 inside `%s` the new handle points '
                        'at the wrong address and refInc()/refDec() count on memory that is not the object\'s counter; use the implicit '
                        'conversion or static_cast' % (src_t, dst_t, bad, dst_t, src_t), at, fr, st)

    def check_untyped(self, e, ks, st, fr):
        """pointer members of handles with *different* pointee types must be compared after the language's pointer conversion to
        a common type (implicit derived-to-base, static_cast to the base); going through void* / an integer / reinterpret_cast
        drops the base-offset adjustment: with multiple inheritance two handles to one object compare unequal"""
        tu = self.tu
        info = []
        for x in ks:
            untyped = None
            n = x
            for _ in range(12):
                if n is None:
                    break
                kk = n.get('kind')
                if kk in ('CStyleCastExpr', 'CXXStaticCastExpr', 'CXXReinterpretCastExpr', 'CXXFunctionalCastExpr'):
                    ct = (tu.sd(n).get('ct') or '').replace('const ', '').replace('volatile ', '').strip()
                    if kk == 'CXXReinterpretCastExpr' or ct in ('void *', 'void*') or not is_ptr_ct(ct):
                        untyped = '%s to `%s`' % ({'CXXReinterpretCastExpr': 'reinterpret_cast', 'CXXStaticCastExpr': 'static_cast'}.get(kk, 'cast'),
                                                  tu.sd(n).get('ct'))
                    n = tu.kids(n)[-1] if tu.kids(n) else None
                elif kk in ('ImplicitCastExpr', 'ParenExpr', 'ExprWithCleanups', 'MaterializeTemporaryExpr'):
                    n = tu.kids(n)[0] if tu.kids(n) else None
                else:
                    break
            base = tu.strip(x, casts=True)
            pointee = None
            if self.is_field(base):
                pointee = (tu.sd(base).get('ct') or '').replace('const', '').replace('*', '').strip()
            elif base is not None and base.get('kind') in CALLS:
                # a followed helper applied to one handle (detail::identityOf(a)): typed iff it returns a pointer to a class
                cf = tu.callee_fn(base)
                s_, o_, args_ = tu.call_parts(base)
                hargs = [handle_type(tu.sd(tu.strip(a_, casts=True)).get('ct')) for a_ in args_]
                if cf is not None and self.is_own_fn(cf) and len(args_) == 1 and hargs[0] and o_ is None:
                    pointee = hargs[0][len(IP) + 1:-1].strip()
                    rct = (tu.sd(base).get('ct') or '').replace('const ', '').replace('volatile ', '').strip()
                    if untyped is None and (rct in ('void *', 'void*') or not is_ptr_ct(rct)) and rct != 'bool':
                        untyped = 'helper %s returning `%s`' % (cf['q'].split('::')[-1], tu.sd(base).get('ct'))
            info.append((untyped, pointee))
        (ua, pa), (ub, pb) = info
        if pa and pb and pa != pb and (ua or ub):
            self.report('untyped-comparison', 'handles to different pointee types (%s, %s) are compared through a %s: the derived-to-base pointer '
                        'adjustment is dropped, so with multiple inheritance (ref-counted base at a non-zero offset) two handles to the same '
                        'object compare unequal; compare the typed pointers (a.ptr == b.ptr converts implicitly) instead'
                        % (pa, pb, ua or ub), e, fr, st)

    @staticmethod
    def compare(op, a, b):
        if op == '==':
            return a == b
        if op == '!=':
            return a != b
        if a == b:
            return op in ('<=', '>=')
        if isinstance(a, tuple) or isinstance(b, tuple):
            return None
        if op == '<':
            return ('lt', a, b)
        if op == '>':
            return ('lt', b, a)
        if op == '>=':
            return ('ge', a, b)
        return ('ge', b, a)

    def aval(self, e, st, fr):
        tu = self.tu
        ct = tu.sd(tu.strip(e)).get('ct') or tu.sd(e).get('ct')
        if handle_type(ct):
            o = self.obj_of(e, fr)
            return ('obj', o) if o else None
        if (ct or '').strip() == 'bool':
            return self.eval_bool(e, st, fr)
        if is_ptr_ct(ct):
            return self.pval(e, st, fr)
        e0 = tu.strip(e, casts=True)
        if e0 is not None and e0.get('kind') == 'UnaryOperator' and e0.get('opcode') == '*':
            return self.pval(tu.kids(e0)[0], st, fr)     # reference to the pointee: identified with the pointer value
        return None

    # ---------------------------------------------------------------- events
    def event(self, what, target, n, st, fr):
        d = thaw(st)
        ev = d.get('$ev', ())
        if target == 'null':
            self.report('null-deref', '%s() is called through a pointer that is null on this path (no null guard)' % what, n, fr, st)
            return [st]
        if target not in OBJS:
            self.und('%s() through a pointer the analysis cannot identify (%s) at %s' % (what, target, self.tu.loc(n)))
            return [st]
        if d.get('!' + target):
            self.report('use-after-release', '%s() on a pointee after the operation already released the last count it could '
                        'rely on (the object may be destroyed): events so far %s' % (what, list(ev)), n, fr, st)
            return [st]
        c = d.get('#' + target, 0)
        if what == 'refInc':
            c += 1
        else:
            if c <= 0:
                self.report('over-release', 'refDec() releases a count that no handle in scope holds '
                            '(events so far %s)' % (list(ev),), n, fr, st)
                return [st]
            c -= 1
            if c == 0:
                d['!' + target] = True
                # the pointee may be destroyed now, and its destructor may drop the only references to *other* objects
                # (a list node owning the next one): a pointee on which this operation holds no count is unreliable too
                for other in OBJS:
                    if other != target and d.get('#' + other, 0) == 0:
                        d['!' + other] = True
        d['#' + target] = c
        d['$ev'] = ev + ('%s(%s)' % ('inc' if what == 'refInc' else 'dec', target),)
        return [freeze(d)]

    def touch_handle(self, loc, n, st, fr):
        """access to the pointer member of a handle object that lives inside a pointee (scenario `$in:<handle>`): once that
        pointee may have been destroyed the handle object itself is gone"""
        if self._cur is None:
            return
        d = thaw(st)
        if loc[0] == 'v':
            owner = d.get('$in:v:' + str(loc[1]))
            if owner and d.get('!' + owner):
                self.report('source-destroyed', 'the pointer argument, received by reference, is read after the operation released what may be '
                            'the last count on the object that contains the referenced pointer (e.g. head = head->next.ptr): the reference '
                            'dangles, the value read comes from a destroyed object (events so far %s); copy the argument before '
                            'releasing the old pointee, or take it by value' % (list(d.get('$ev', ())),), n, fr, st)
            return
        if loc[0] != 'h':
            return
        owner = d.get('$in:' + str(loc[1]))
        if owner and d.get('!' + owner):
            self.report('source-destroyed', 'the pointer member of `%s` is accessed after the operation released what may be the last '
                        'count on the object that contains `%s` (e.g. head = head->next): the handle object itself may already '
                        'be destroyed (events so far %s)' % (loc[1], loc[1], list(d.get('$ev', ()))), n, fr, st)

    def und(self, msg):
        if msg not in self.undecided:
            self.undecided.append(msg)

    # ---------------------------------------------------------------- transfer
    def on_init(self, e, st, fr, depth=0):
        tu = self.tu
        me = fr.env.get('this')
        init = tu.node(e[1])
        if me is None:
            return [st]
        if e[2] in self.field_ids:
            v = None
            if init is not None and init.get('kind') == 'CXXDefaultInitExpr':
                fd = tu.node(e[2])
                ks = init_exprs(tu, fd) if fd is not None else []
                v = self.pval(ks[-1], st, fr) if ks else 'undef'
            elif init is not None:
                self.check_pointer_cast(init, init, st, fr)
                v = self.pval(init, st, fr)
            if v is None or isinstance(v, tuple):
                self.und('initialiser of the pointer member not understood at %s' % tu.loc(init))
                v = 'undef'
            return [self.setloc(st, ('h', me), v)]
        if init is not None and tu.strip(init).get('kind') == 'CXXConstructExpr':
            callee = tu.callee_fn(tu.strip(init))
            if callee is not None and self.is_own_fn(callee) and callee.get('ctor'):   # delegating constructor
                return self.inline(tu.strip(init), callee, me, st, fr)
        return [st]

    def on_dtor_elem(self, e, st, fr):
        tu = self.tu
        name = None
        if e[0] == 'AD':
            name = fr.env.get(e[1])
        elif e[0] == 'TD':
            bt = tu.node(e[1])
            if bt is not None:
                inner = tu.strip(tu.kids(bt)[0]) if tu.kids(bt) else None
                if inner is not None:
                    name = fr_root(fr).temps.get(inner['id'])
        if name is None or not name.startswith('tmp:'):
            return [st]
        d = thaw(st)
        if d.get(name) in (None, 'gone'):
            return [st]
        dt = self.dtor_of(self.otype.get(name))
        if dt is None:
            self.und('no destructor body for local handle %s' % name)
            return [st]
        outs = []
        for s2, rv in self.run_fn(dt, {'this': name}, st, fr, None, frame_depth(fr) + 1):
            d2 = thaw(s2)
            d2[name] = 'gone'
            s3 = freeze(d2)
            if s3 not in outs:
                outs.append(s3)
        return outs

    def dtor_of(self, rect):
        for f in self.tu.functions.values():
            if f.get('dtor') and f.get('rect') == rect and not f['dep'] and self.tu.cfg(f) is not None:
                return f
        return None

    def inline(self, n, callee, this_obj, st, fr):
        """run an own function at call/construct node n; returns list of (state, retval)-less states via after()"""
        tu = self.tu
        s_, obj, args = tu.call_parts(n)
        env = {}
        if this_obj is not None:
            env['this'] = this_obj
        d = thaw(st)
        before = set(d)
        for p, a in zip(callee.get('params', []), args):
            if handle_type(p['ct']):
                o = self.obj_of(a, fr)
                if o is None:
                    self.und('handle argument of %s not understood at %s' % (callee['q'], tu.loc(n)))
                    return [st]
                env[p['id']] = o
            elif raw_ptr_param(p['ct']):
                v = self.pval(a, st, fr)
                if v is None or isinstance(v, tuple):
                    self.und('pointer argument of %s not understood at %s' % (callee['q'], tu.loc(n)))
                    return [st]
                d['v:' + p['id']] = v
        res = []
        self._last_rv = []
        self.inlined[callee['id']] = self.inlined.get(callee['id'], 0) + 1
        for s2, rv in self.run_fn(callee, env, freeze(d), fr, n, frame_depth(fr) + 1):
            d2 = {k: v for k, v in thaw(s2).items() if not k.startswith('v:') or k in before}
            # the value the call returned belongs to the state *at the call*: a later evaluation of the call expression (the
            # initialiser `T *old = takeOver(input)`) must not re-run the callee in the state the call itself produced
            if rv in ('null', 'undef') + OBJS or isinstance(rv, (bool, tuple)):
                d2['$rv:' + str(n['id'])] = rv
            s3 = freeze(d2)
            if s3 not in res:
                res.append(s3)
        return res

    def on_node(self, n, st, fr):
        tu = self.tu
        k = n.get('kind')
        if k == 'BinaryOperator' and n.get('opcode') == '=':
            ks = tu.kids(n)
            loc = self.loc_of(ks[0], fr)
            if loc is None:
                return [st]
            if loc[0] == '?':
                self.und('assignment to the pointer member of an untracked handle at %s' % tu.loc(n))
                return [st]
            self.touch_handle(loc, n, st, fr)
            if loc[0] == 'h':
                self.check_pointer_cast(ks[1], n, st, fr)
            v = self.pval(ks[1], st, fr)
            if v is None or isinstance(v, tuple):
                self.und('value assigned to a tracked pointer not understood at %s: %s' % (tu.loc(n), tu.show(n)))
                v = 'undef'
            return [self.setloc(st, loc, v)]
        if k == 'CompoundAssignOperator' or (k == 'UnaryOperator' and n.get('opcode') in ('++', '--')):
            if self.loc_of(tu.kids(n)[0], fr) is not None:
                self.und('pointer arithmetic on a tracked pointer at %s' % tu.loc(n))
            return [st]
        if k == 'CXXDeleteExpr':
            v = self.pval(tu.kids(n)[0], st, fr) if tu.kids(n) else None
            if v in OBJS or v is None:
                self.und('a handle operation deletes a pointee directly at %s' % tu.loc(n))
            return [st]
        if k == 'DeclStmt':
            for v in tu.kids(n):
                if v.get('kind') != 'VarDecl':
                    continue
                ks = tu.kids(v)
                ct = tu.sd(ks[-1]).get('ct') if ks else None
                vt = v.get('type', {}).get('qualType', '')
                if not ks:
                    if '*' in vt:
                        st = self.setloc(st, ('v', v['id']), 'undef')
                    continue
                init = ks[-1]
                o = self.obj_of(init, fr)
                if o is not None and handle_type(tu.sd(tu.strip(init, casts=True)).get('ct') or ct):
                    fr.env[v['id']] = o
                    continue
                if is_ptr_ct(tu.sd(tu.strip(init)).get('ct') or ct) or '*' in vt:
                    pv = self.pval(init, st, fr)
                    if pv is None or isinstance(pv, tuple):
                        if pv is None and self.mentions_tracked(init, fr):
                            self.und('initialiser of a local pointer not understood at %s' % tu.loc(n))
                        continue
                    st = self.setloc(st, ('v', v['id']), pv)
            return [st]
        if k in ('CXXConstructExpr', 'CXXTemporaryObjectExpr'):
            rect = handle_type(tu.sd(n).get('ct') or tu.sd(n).get('cty'))
            if rect is None:
                return [st]
            # a mem-initialiser / delegating construct is handled by on_init
            par = tu.par(n)
            if n.get('elidable'):
                self.und('elided copy of a handle at %s' % tu.loc(n))
                return [st]
            callee = tu.callee_fn(n)
            if callee is None or tu.cfg(callee) is None:
                self.und('constructor of a local handle has no body to analyse at %s' % tu.loc(n))
                return [st]
            if fr.env.get('this') is not None and self.is_delegating(n, fr):
                return [st]
            name = 'tmp:%s@%d' % (tu.line(n), len(fr_root(fr).temps))
            fr_root(fr).temps[n['id']] = name
            self.otype[name] = rect
            d = thaw(st)
            d[name] = 'undef'
            return self.inline(n, callee, name, freeze(d), fr)
        if k in CALLS:
            return self.do_call(n, st, fr)
        return [st]

    def is_delegating(self, n, fr):
        g = self.tu.cfg(fr.fn)
        for b in g.blocks.values():
            for e in b.el:
                if e[0] == 'I' and (e[1] == n['id'] or (self.tu.strip(self.tu.node(e[1])) or {}).get('id') == n['id']):
                    return True
        return False

    def mentions_tracked(self, e, fr):
        for x in self.tu.walk(e):
            if self.is_field(x):
                return True
            if x.get('kind') == 'DeclRefExpr' and (x.get('referencedDecl', {}).get('id') in fr.env):
                return True
        return False

    def do_call(self, n, st, fr):
        tu = self.tu
        sd, obj, args = tu.call_parts(n)
        q = sd.get('q', '')
        if q in (INC, DEC):
            me = tu.strip(tu.kids(n)[0])
            target = self.pval(obj, st, fr) if obj is not None else None
            if isinstance(target, tuple):
                target = None
            return self.event('refInc' if q == INC else 'refDec', target, n, st, fr)
        if q == USE or q in ('std::move', 'std::forward', 'std::addressof'):
            return [st]
        if q == 'std::swap' and len(args) == 2:
            la, lb = self.loc_of(args[0], fr), self.loc_of(args[1], fr)
            if la and lb and la[0] != '?' and lb[0] != '?':
                va, vb = self.getloc(st, la), self.getloc(st, lb)
                return [self.setloc(self.setloc(st, la, vb), lb, va)]
            if la or lb or self.obj_of(args[0], fr) or self.obj_of(args[1], fr):
                self.und('std::swap on tracked state in a form the analysis does not model at %s' % tu.loc(n))
            return [st]
        callee = tu.callee_fn(n)
        if callee is not None and self.is_own_fn(callee) and tu.cfg(callee) is not None:
            this_obj = None
            if obj is not None and callee.get('rec'):
                this_obj = self.obj_of(obj, fr)
                if this_obj is None:
                    self.und('call of %s on a handle the analysis cannot identify at %s' % (q, tu.loc(n)))
                    return [st]
            return self.inline(n, callee, this_obj, st, fr)
        # foreign callee: tracked state must not escape into it
        esc = False
        for a in ([obj] if obj is not None else []) + list(args):
            if self.obj_of(a, fr) is not None or self.loc_of(a, fr) is not None:
                esc = True
            else:
                v = self.pval(a, st, fr)
                if v in OBJS:
                    esc = True
        if esc:
            self.und('tracked handle/pointer escapes into %s at %s' % (q or '?', tu.loc(n)))
        return [st]


class _Root:
    pass


def fr_root(fr):
    while fr.parent is not None:
        fr = fr.parent
    if not hasattr(fr, 'temps'):
        fr.temps = {}
    return fr


def frame_depth(fr):
    n = 0
    while fr is not None:
        n += 1
        fr = fr.parent
    return n


def scenarios(tu, f):
    """entry scenarios: list of (label, env, state dict, info)"""
    is_member = f.get('rec') == IP
    ctor = bool(f.get('ctor'))
    hparams = [(p, handle_type(p['ct'])) for p in f['params'] if handle_type(p['ct'])]
    rparams = [p for p in f['params'] if not handle_type(p['ct']) and raw_ptr_param(p['ct'])]
    out = []
    this_vals = ['undef'] if ctor else ['null', 'A']
    if not is_member:
        this_vals = [None]
    for tv in this_vals:
        base_env = {}
        base = {}
        handles = []
        if tv is not None:
            base_env['this'] = 'this'
            base['this'] = tv
            if not ctor:
                handles.append('this')
        combos = [(dict(base_env), dict(base), list(handles), [])]
        for p, rect in hparams:
            nm = p['name'] or 'arg%d' % len(base)
            nxt = []
            for env, d, hs, lab in combos:
                used = {v for k, v in d.items() if v in OBJS}
                fresh = 'A' if 'A' not in used else 'B'
                vals = ['null'] + sorted(used) + ([fresh] if fresh not in used else [])
                for v in vals:
                    e2, d2 = dict(env), dict(d)
                    e2[p['id']] = nm
                    d2[nm] = v
                    nxt.append((e2, d2, hs + [nm], lab + ['%s=%s' % (nm, v)]))
                # aliasing with an earlier handle object of the same type (this or another parameter)
                cands = []
                if is_member and not ctor and rect == f.get('rect'):
                    cands.append('this')
                for p0, r0 in hparams:
                    if p0 is p:
                        break
                    if r0 == rect:
                        cands.append(p0['name'])
                for c in cands:
                    if c in d:
                        e2 = dict(env)
                        e2[p['id']] = c
                        nxt.append((e2, dict(d), list(hs), lab + ['&%s==%s' % (nm, 'this' if c == 'this' else '&' + c)]))
            combos = nxt
        for p in rparams:
            nm = p['name'] or 'ptr'
            nxt = []
            for env, d, hs, lab in combos:
                used = {v for k, v in d.items() if v in OBJS}
                fresh = 'A' if 'A' not in used else 'B'
                for v in ['null'] + sorted(used) + ([fresh] if fresh not in used and len(used) < 2 else []):
                    d2 = dict(d)
                    d2['v:' + p['id']] = v
                    nxt.append((env, d2, hs, lab + ['%s=%s' % (nm, v)]))
            combos = nxt
        if is_member and not ctor and tv == 'A':
            extra = []
            for env, d, hs, lab in combos:
                for p, rect in hparams:
                    nm = env.get(p['id'])
                    if nm and nm != 'this' and d.get(nm) in ('null', 'B'):
                        d2 = dict(d)
                        d2['$in:' + nm] = 'A'
                        extra.append((env, d2, hs, lab + ['&%s inside *this->ptr' % nm]))
                for p in rparams:
                    # a raw pointer received by reference may itself be stored inside the old pointee (head = head->next.ptr)
                    if p['ct'].rstrip().endswith('&') and d.get('v:' + p['id']) in ('null', 'B'):
                        d2 = dict(d)
                        d2['$in:v:' + p['id']] = 'A'
                        extra.append((env, d2, hs, lab + ['&%s inside *this->ptr' % (p['name'] or 'ptr')]))
            combos = combos + extra
        for env, d, hs, lab in combos:
            for o in OBJS:
                d['#' + o] = sum(1 for h in hs if d.get(h) == o)
            d['$ev'] = ()
            label = ', '.join((['this=%s' % tv] if tv not in (None, 'undef') else []) + lab)
            out.append((label, env, d, hs))
    return out


def source_of(f, env, d0):
    """(kind, value) of the source operand: ('h', name) / ('v', key) / None"""
    for p in f['params']:
        if handle_type(p['ct']):
            return ('h', env[p['id']])
        if raw_ptr_param(p['ct']):
            return ('v', 'v:' + p['id'])
    return None


def role_of(f):
    name = f['q'].split('::')[-1]
    if f.get('rec') != IP:
        if re.match(r'operator(==|!=|<|>|<=|>=)$', name):
            return 'compare'
        ps = f.get('params', [])
        if not f.get('rec') and len(ps) == 1 and handle_type(ps[0]['ct']) and ps[0]['ct'].strip().startswith('const ') \
                and not ps[0]['ct'].rstrip().endswith('&&'):
            return 'free-reader'      # free helper that receives one handle by const reference (e.g. detail::identityOf)
        return None
    if f.get('dtor'):
        return 'dtor'
    if f.get('ctor') == 'default':
        return 'default-ctor'
    if f.get('ctor') == 'move':
        return 'move-ctor'
    rvalue_handle = len(f['params']) == 1 and handle_type(f['params'][0]['ct']) and f['params'][0]['ct'].rstrip().endswith('&&')
    if f.get('ctor'):
        if rvalue_handle:
            return 'move-ctor'        # converting move constructor (handle of another pointee type by rvalue reference)
        if len(f['params']) == 1:
            return 'copy-ctor'        # copy, converting and raw-pointer constructors: share the source's pointee
        return None
    if name == 'operator=':
        if f.get('assign') == 'move' or rvalue_handle:
            return 'move-assign'
        if len(f['params']) == 1:
            return 'copy-assign'      # copy and raw-pointer assignment
        return None
    if name in ('operator bool', 'operator*', 'operator->', 'get'):
        return 'reader'
    ps = f.get('params', [])
    if len(ps) == 1 and handle_type(ps[0]['ct']) == f.get('rect') and ps[0]['ct'].rstrip().endswith('&') and \
            not ps[0]['ct'].rstrip().endswith('&&') and not ps[0]['ct'].strip().startswith('const ') and f['fty'].startswith('void '):
        return 'exchange'     # void member(IntrusivePtr &): decided as an exchange of the two pointees (swap); anything else is undecided
    return None


def touches(tu, f, field_ids, counter_ids):
    """which tracked entities a function body names"""
    t = set()
    b = tu.body(f)
    if b is None:
        return t
    nodes = list(tu.walk(b))
    g = tu.cfg(f)
    if g is not None:
        for blk in g.blocks.values():
            for e in blk.el:
                if e[0] == 'I':
                    if e[2] in field_ids:
                        t.add('ptr')
                    if e[2] in counter_ids:
                        t.add('counter')
                    x = tu.node(e[1])
                    if x is not None:
                        nodes.extend(tu.walk(x))
    for x in nodes:
        sd = tu.sd(x) if x.get('id') else None
        if not sd:
            continue
        if sd.get('k') == 'member' and sd.get('d') in field_ids:
            t.add('ptr')
        if sd.get('d') in counter_ids and sd.get('k') in ('member', 'ref'):
            t.add('counter')
        if sd.get('k') == 'call' and sd.get('q') in (INC, DEC):
            t.add('incdec')
    return t


CONFIG_TAG = ['']      # suffix of instance labels while a non-default build configuration is analysed


def check_effects(ctx, tu, seen_patterns):
    R1, R3 = 'R-C08-1', 'R-C08-3'
    ctx.describe(R1, 'per-operation reference accounting: null-guarded refInc/refDec, no release of an unowned count, nothing '
                     'touched after the last reliable count was released, at exit counts held == handles in scope per pointee, '
                     'handle points at the source pointee')
    ctx.describe(R3, 'operator==/!= decide identity of the pointer members; operator< is a strict order on them')
    field_ids, field_name = set(), None
    for r in tu.records.values():
        if r.get('tmpl') == IP:
            ptrs = [fd for fd in r['fields'] if is_ptr_ct(fd['ct'])]
            if len(r['fields']) != 1 or len(ptrs) != 1:
                ctx.undecided(R1, r['type'], 'expected exactly one (pointer) data member in the handle, found %s'
                              % [fd['name'] for fd in r['fields']], HDR)
                return 0, 0
            field_ids.add(ptrs[0]['id'])
            field_name = ptrs[0]['name']
    if not field_ids:
        ctx.broken('R-C08-1: no instantiation of %s in the driver' % IP)
        return 0, 0
    # template-pattern field id (dependent bodies reference the pattern's FieldDecl)
    it = RefInterp(tu, field_ids, field_name)
    n1 = n3 = 0
    helpers = []
    for f in sorted(tu.functions.values(), key=lambda x: (x['f'], x['l'], x['q'], x['fty'])):
        if f['dep'] or tu.cfg(f) is None or not it.is_own_fn(f):
            continue
        role = role_of(f)
        inst0 = '%s %s%s' % (f['q'].replace('rkcommon::memory::', ''), f['fty'].replace('rkcommon::memory::', ''), CONFIG_TAG[0])
        file = norm_file(tu.fn_file(f))
        pname = pattern_name(tu, f)
        if f.get('pat'):
            seen_patterns.add(f['pat'])
        tch = touches(tu, f, field_ids, set())
        if role is None:
            if tch and is_private_helper(tu, f):
                helpers.append((f, inst0))       # reported after all callers were interpreted
            elif tch:
                ctx.undecided(R1, inst0, 'member touches the pointer member / the count but has no known role '
                              '(constructor, destructor, assignment, reader, comparison)', tu.fn_loc(f))
            continue
        if tu.cfg(f).back_edges():
            ctx.undecided(R1, inst0, 'loop in a handle operation', tu.fn_loc(f))
            continue
        rule = R3 if role == 'compare' else R1
        for label, env, d0, handles in scenarios(tu, f):
            it.memo = {}
            st0 = freeze(d0)
            nund = len(it.undecided)
            (st_, outs, found), = it.analyse_entry(f, dict(env), [st0])
            inst = '%s [%s]' % (inst0, label)
            if rule == R1:
                n1 += 1
            else:
                n3 += 1
            if it.undecided[nund:]:
                for u in it.undecided[nund:]:
                    ctx.undecided(rule, inst, u, tu.fn_loc(f))
                continue
            bad = False
            for kind, detail, nid, chain, fst, infn in found:
                bad = True
                inner = tu.functions.get(infn, f)
                path = list(chain) + (['at %s: %s' % (tu.loc(nid), tu.show(tu.node(nid)))] if nid else [])
                ctx.violation(rule, inst, detail, tu.loc(nid) if nid else tu.fn_loc(f),
                              key='%s|%s|%s|%s' % (rule, norm_file(tu.fn_file(inner)), pattern_name(tu, inner), kind), path=path)
            if bad:
                continue
            if not outs:
                ctx.undecided(rule, inst, 'no path reaches the exit', tu.fn_loc(f))
                continue
            problems = []
            for s2, rv in outs:
                d = thaw(s2)
                problems += post(role, f, env, d0, d, rv, handles)
            if len(outs) > 1 and role != 'compare':
                ctx.undecided(rule, inst, 'a branch condition could not be decided from the entry scenario (%d exits)' % len(outs), tu.fn_loc(f))
                continue
            if problems:
                seen = set()
                for kind, msg in problems:
                    if kind in seen:
                        continue
                    seen.add(kind)
                    if kind == 'undecided':
                        ctx.undecided(rule, inst, msg, tu.fn_loc(f))
                    else:
                        ctx.violation(rule, inst, msg, tu.fn_loc(f), key='%s|%s|%s|%s' % (rule, file, pname, kind),
                                      path=['entry: %s' % label, 'events: %s' % (list(thaw(outs[0][0]).get('$ev', ())),)])
            else:
                d = thaw(outs[0][0])
                ctx.ok(rule, inst, 'events %s; exit %s' % (list(d.get('$ev', ())), {k: v for k, v in sorted(d.items())
                                                                                   if k[0] not in '#!$' and v != 'gone' and not k.startswith('v:')}
                                                            ) if rule == R1 else 'returns %s' % (outs[0][1],), tu.fn_loc(f),
                       nontrivial=bool(tch) or role == 'compare')
    for f, inst0 in helpers:
        k = it.inlined.get(f['id'], 0)
        ctx.ok(R1, inst0, 'private helper (the class has no friends): its effects are interpreted at each of its %d call site(s) inside '
               'the analysed members, with the arguments bound' % k, tu.fn_loc(f), nontrivial=k > 0)
    return n1, n3


def has_friends(tu, name):
    for d in tu.decls:
        for x in tu.walk(d):
            if x.get('kind') == 'CXXRecordDecl' and x.get('name') == name:
                if any(y.get('kind') == 'FriendDecl' for y in tu.kids(x)):
                    return True
    return False


def is_private_helper(tu, f):
    """a private member of the handle without a role of its own: callable only from the members of the class (all of which are
    interpreted with their callees inlined), provided the class befriends nobody"""
    return f.get('rec') == IP and f.get('access') == 'private' and not f.get('virt') and not has_friends(tu, IP.split('::')[-1])


def post(role, f, env, d0, d, rv, handles):
    """post-conditions of one exit state; returns [(kind, message)]"""
    out = []
    src = source_of(f, env, d0)
    src_val = None
    if src is not None:
        src_val = d0.get(src[1])
    aliased = src is not None and src[0] == 'h' and src[1] == 'this'
    if role == 'compare':
        hs = [env[p['id']] for p in f['params'] if handle_type(p['ct'])]
        if len(hs) != 2:
            return [('undecided', 'comparison with other than two handle operands')]
        a, b = d0.get(hs[0]), d0.get(hs[1])
        name = f['q'].split('::')[-1]
        op = name[len('operator'):]
        want = RefInterp.compare(op, a, b)
        if rv is None:
            return [('undecided', 'result of the comparison not understood')]
        if rv != want:
            return [('wrong-comparison', '%s returns %s for operands pointing at (%s, %s); identity of the pointees requires %s'
                     % (name, rv, a, b, want))]
        if d.get('$ev') or any(d.get(h) != d0.get(h) for h in hs):
            return [('side-effect', 'comparison modifies a handle or a count')]
        return []
    if role == 'free-reader':
        h = env[f['params'][0]['id']]
        if d.get('$ev') or d.get(h) != d0.get(h):
            return [('side-effect', 'a helper that takes the handle by const reference modifies it or a count')]
        return []
    # live handles at exit
    final = [h for h in handles if h != 'this' or role != 'dtor']
    if role in ('copy-ctor', 'move-ctor', 'default-ctor') and 'this' not in final:
        final = ['this'] + final
    final = list(dict.fromkeys(final))
    if any(k.startswith('tmp:') and v != 'gone' for k, v in d.items()):
        out.append(('undecided', 'a local handle is still alive at exit'))
    for o in OBJS:
        held = d.get('#' + o, 0)
        fields = sum(1 for h in final if d.get(h) == o)
        if held < fields:
            out.append(('missing-count', '%d handle(s) point at pointee %s at exit but only %d count(s) are held for them: the object '
                        'is destroyed while a handle still refers to it (a refInc is missing / a moved-from source keeps its pointer); events %s'
                        % (fields, o, held, list(d.get('$ev', ())))))
        elif held > fields:
            out.append(('leaked-count', '%d count(s) are held for pointee %s at exit but only %d handle(s) point at it: the count never '
                        'returns to zero and the object is never destroyed (a refDec is missing / an extra refInc); events %s'
                        % (held, o, fields, list(d.get('$ev', ())))))
    # a handle that lives inside a pointee (scenario `$in:<handle>`) must not end up pointing at that very pointee: the object
    # would hold a count on itself that nobody can ever release (head = std::move(head->next) implemented as a pointer swap)
    for k, owner in d0.items():
        if k.startswith('$in:') and not k.startswith('$in:v:') and role != 'exchange':     # (for an exchange it is the requested result)
            h = k[len('$in:'):]
            if d.get(h) == owner and d0.get(h) != owner and not d.get('!' + owner):
                out.append(('self-cycle', 'at exit the handle `%s`, which is stored inside pointee %s (e.g. head->next in head = std::move(head->next)), '
                            'points at %s itself: the object now holds a count on itself, no release can ever bring its count to zero and it '
                            'is never destroyed (the old pointee must be released by this operation, not parked in the source); events %s'
                            % (h, owner, owner, list(d.get('$ev', ())))))
    if role == 'exchange':
        h = env[f['params'][0]['id']]
        if d.get('$ev'):
            out.append(('undecided', 'a member taking another handle by reference changes counts: not an exchange of pointees (events %s)'
                        % (list(d['$ev']),)))
        elif h == 'this':
            if d.get('this') != d0.get('this'):
                out.append(('undecided', 'member(IntrusivePtr &) applied to itself changes the handle'))
        elif d.get('this') != d0.get(h) or d.get(h) != d0.get('this'):
            out.append(('undecided', 'member(IntrusivePtr &) without count changes that does not exchange the two pointees (this: %s -> %s, '
                        '%s: %s -> %s)' % (d0.get('this'), d.get('this'), h, d0.get(h), d.get(h))))
    tv = d.get('this')
    if role == 'default-ctor':
        if tv != 'null':
            out.append(('wrong-pointee', 'default-constructed handle holds %s instead of null' % tv))
    elif role in ('copy-ctor', 'copy-assign', 'move-ctor', 'move-assign'):
        if tv == 'undef':
            out.append(('wrong-pointee', 'pointer member left without a defined value'))
        elif role.startswith('move') and aliased:
            if tv not in ('null', src_val):
                out.append(('wrong-pointee', 'after self-move the handle holds %s' % tv))
        elif tv != src_val:
            out.append(('wrong-pointee', 'handle points at %s after the operation, the source pointed at %s%s' % (
                tv, src_val, ' (the target kept its old pointee and the count on it: after assigning from %s it must %s)' % (
                    'an empty handle' if src_val == 'null' else 'the source', 'be empty' if src_val == 'null' else 'refer to the source\'s pointee')
                if role.endswith('assign') and tv == d0.get('this') else '')))
        if src is not None and src[0] == 'h' and not aliased:
            sv = d.get(src[1])
            if role.startswith('copy') and sv != src_val:
                out.append(('source-modified', 'copy operation changed the source handle from %s to %s' % (src_val, sv)))
    elif role == 'reader':
        if d.get('$ev') or tv != d0.get('this'):
            out.append(('side-effect', 'accessor modifies the handle or a count'))
        name = f['q'].split('::')[-1]
        if name == 'operator bool':
            if rv is not (d0.get('this') != 'null'):
                out.append(('wrong-result', 'operator bool returns %s for a handle holding %s' % (rv, d0.get('this'))))
        elif name in ('operator->', 'get') or name == 'operator*':
            if d0.get('this') in OBJS and rv != d0.get('this'):
                out.append(('wrong-result' if rv is not None else 'undecided',
                            '%s yields %s for a handle holding %s' % (name, rv, d0.get('this'))))
    return out


# ============================================================================================
#  R-C08-2: the counter
# ============================================================================================
from rkstatic.x_atomics import init_exprs  # noqa: E402
from rkstatic.x_atomics import free_atoms  # noqa: E402
from rkstatic.x_atomics import (ATOMIC_INT, PLAIN_INT, WIDTH64, atomic_call, call_mo, cfg_paths, cfg_paths_unrolled, fence_mo,
                                int_eval, loop_blocks)  # noqa: E402


def check_counter(ctx, tu):
    R2, W1 = 'R-C08-2', 'W-C08-1'
    ctx.describe(R2, 'counter is std::atomic<integral> initialised to 1; refInc = one atomic increment; refDec = one atomic decrement '
                     'and `delete this` iff that RMW produced 0; useCount loads; nobody else touches the counter')
    ctx.describe(W1, 'RefCountedObject cannot be copied or moved together with its count')
    rec = None
    for r in tu.records.values():
        if r['q'] == RCO:
            rec = r
    if rec is None:
        ctx.broken('R-C08-2: record %s not found' % RCO)
        return 0, set()
    n = 0
    fns = {q: [f for f in tu.fns(q=q, dep=False) if tu.cfg(f) is not None] for q in (INC, DEC, USE)}
    for q, fs in fns.items():
        if len(fs) != 1:
            ctx.broken('R-C08-2: %s has %d bodies in the driver unit (expected 1)' % (q, len(fs)))
            return 0, set()
    finc, fdec, fuse = fns[INC][0], fns[DEC][0], fns[USE][0]
    # the counter: the member of RefCountedObject that refInc refers to
    refd = set()

    def fields_of(fn, depth=0):
        for b, i, x in tu.cfg(fn).stmts():
            sd = tu.sd(x)
            if x.get('kind') == 'MemberExpr' and sd.get('rec') == RCO and sd.get('k') == 'member' and 'fi' in sd:
                refd.add(sd['d'])
            elif x.get('kind') == 'CXXMemberCallExpr' and depth < 3:      # a private helper shared by refInc / refDec
                cf = tu.callee_fn(x)
                s_, o_, a_ = tu.call_parts(x)
                if cf is not None and cf.get('recid') == fn.get('recid') and cf['id'] != fn['id'] and tu.cfg(cf) is not None and \
                        (o_ is None or tu.is_this(o_)):
                    fields_of(cf, depth + 1)
    fields_of(finc)
    cands = [fd for fd in rec['fields'] if fd['id'] in refd]
    if len(cands) > 1:
        # several members are mentioned (e.g. an owner-thread id next to the count): the counter is the one of integral / atomic
        # integral type, or a class wrapping such a member
        def countish(fd):
            if ATOMIC_INT.match(fd['ct']) or PLAIN_INT.match(fd['ct'].replace('volatile ', '')):
                return True
            wrec_ = tu.records_by_type.get(fd['ct'].replace('const ', '').strip())
            return wrec_ is not None and len(wrec_.get('fields', [])) == 1 and bool(ATOMIC_INT.match(wrec_['fields'][0]['ct']))
        cands = [fd for fd in cands if countish(fd) and not fd['ct'].startswith('const ')] or cands
    if len(cands) != 1:
        ctx.undecided(R2, 'RefCountedObject', 'refInc does not refer to exactly one data member of RefCountedObject (%d): '
                      'cannot identify the counter' % len(cands), tu.fn_loc(finc))
        return 0, set()
    cnt = cands[0]
    WRAPPER[id(tu)] = None
    if not ATOMIC_INT.match(cnt['ct']) and not PLAIN_INT.match(cnt['ct']):
        # the counter may be wrapped: a class (typically a private nested one) whose only data member is the atomic; its member
        # functions called on this->counter are followed like private helpers of RefCountedObject itself
        wrec = tu.records_by_type.get(cnt['ct'].replace('const ', '').strip())
        if wrec is not None and len(wrec.get('fields', [])) == 1 and not wrec.get('bases'):
            WRAPPER[id(tu)] = {'field': cnt['id'], 'rec': wrec['q'], 'recid': wrec['id'], 'name': cnt['name']}
            inner = dict(wrec['fields'][0])
            inner['name'] = '%s.%s' % (cnt['name'], inner['name'])
            cnt = inner
    counter_ids = {cnt['id']}
    file = norm_file(tu.fn_file(finc))
    # -- special members (W-C08-1)
    nw = 0
    for sm in ('copy_ctor', 'move_ctor', 'copy_assign', 'move_assign'):
        info = rec.get(sm, {})
        nw += 1
        if not info.get('has') or info.get('deleted'):
            ctx.ok(W1, 'RefCountedObject %s' % sm, 'deleted / not declared', HDR)
        elif info.get('user'):
            ctx.ok(W1, 'RefCountedObject %s' % sm, 'user-provided: its effect on the counter is checked by R-C08-2', HDR)
        else:
            ctx.violation(W1, 'RefCountedObject %s' % sm, 'implicit memberwise %s would copy the reference count of the source object' % sm,
                          HDR, key='%s|%s|RefCountedObject|%s' % (W1, file, sm))
    ctx.floor(W1, nw, 4, 'four copy/move special members')
    # -- type
    n += 1
    inst = 'RefCountedObject::%s%s' % (cnt['name'], CONFIG_TAG[0])
    if ATOMIC_INT.match(cnt['ct']):
        ctx.ok(R2, inst + ' type', cnt['ct'], HDR)
        # width: the number of references is not bounded by a small pool (explicit refInc() calls are not even bounded by
        # memory); the contract of the pinned tree is a 64-bit count (long long, also the return type of useCount()).
        # On the analysed target (x86-64, LP64) the 64-bit integer types are exactly the ones below, all 8-byte aligned.
        n += 1
        if WIDTH64.match(cnt['ct']) and cnt.get('talign', 8) >= 8:
            ctx.ok(R2, inst + ' width', '%s: at least 64 value bits (alignment %s)' % (cnt['ct'], cnt.get('talign')), HDR)
        else:
            ctx.violation(R2, inst + ' width', 'the reference counter `%s` has fewer than 64 bits (alignment %s): after 2^31 outstanding '
                          'references useCount() turns negative, after 2^32 the count wraps and one release destroys the object while '
                          'references remain; the count must be able to represent every number of references a history can create '
                          '(contract of the pinned tree: 64-bit long long)' % (cnt['ct'], cnt.get('talign')), HDR,
                          key='%s|%s|RefCountedObject|counter-too-narrow' % (R2, file))
    elif PLAIN_INT.match(cnt['ct']) or cnt['ct'].startswith('volatile '):
        ctx.violation(R2, inst + ' type', 'the reference counter has type `%s`, not std::atomic<integral>: concurrent refInc/refDec lose '
                      'updates and two threads can both observe zero' % cnt['ct'], HDR,
                      key='%s|%s|RefCountedObject|counter-not-atomic' % (R2, file))
        return n, counter_ids
    else:
        ctx.undecided(R2, inst + ' type', 'counter type `%s` is not a recognised std::atomic<integral>' % cnt['ct'], HDR)
        return n, counter_ids
    # -- initial value
    ctors = [f for f in tu.functions.values() if f.get('rec') == RCO and f.get('ctor') and not f['dep'] and tu.cfg(f) is not None]
    if not ctors:
        ctx.broken('R-C08-2: no constructor of RefCountedObject with a body (the driver must odr-use the default constructor)')
    for f in ctors:
        n += 1
        inst = 'RefCountedObject::RefCountedObject %s initial count%s' % (f['fty'], CONFIG_TAG[0])
        key = '%s|%s|RefCountedObject::RefCountedObject|initial-count' % (R2, file)
        val = 'missing'
        for blk in tu.cfg(f).blocks.values():
            for e in blk.el:
                wr = WRAPPER.get(id(tu))
                if e[0] == 'I' and wr and e[2] == wr['field']:
                    wi = tu.strip(tu.node(e[1])) if tu.node(e[1]) is not None else None
                    if wi is not None and wi.get('kind') == 'CXXDefaultInitExpr':
                        fd_ = tu.node(e[2])
                        wi = tu.strip(init_exprs(tu, fd_)[-1]) if fd_ is not None and init_exprs(tu, fd_) else None
                    wc = tu.callee_fn(wi) if wi is not None and wi.get('kind') in ('CXXConstructExpr', 'CXXTemporaryObjectExpr') else None
                    val = None
                    if wc is not None and tu.cfg(wc) is not None:
                        val = 'missing'
                        for wb in tu.cfg(wc).blocks.values():
                            for we in wb.el:
                                if we[0] == 'I' and we[2] in counter_ids:
                                    wini = tu.node(we[1])
                                    if wini is not None and wini.get('kind') == 'CXXDefaultInitExpr':
                                        fd_ = tu.node(we[2])
                                        wini = init_exprs(tu, fd_)[-1] if fd_ is not None and init_exprs(tu, fd_) else None
                                    val = const_init(tu, wini)
                                    if val is None and wini is not None and tu.kids(wi):
                                        val = None      # depends on constructor arguments: not a constant here
                if e[0] == 'I' and e[2] in counter_ids:
                    init = tu.node(e[1])
                    if init is not None and init.get('kind') == 'CXXDefaultInitExpr':
                        fd = tu.node(e[2])
                        init = init_exprs(tu, fd)[-1] if fd is not None and init_exprs(tu, fd) else None
                    val = const_init(tu, init)
                    if val is None and init is not None and any((atomic_call(tu, y, counter_ids) or ('',))[0] == 'load'
                                                                for y in tu.walk(init)):
                        val = 'copied'
        if val == 1:
            ctx.ok(R2, inst, 'counter initialised to 1 (the creator\'s reference)', tu.fn_loc(f))
        elif val == 'missing':
            ctx.violation(R2, inst, 'constructor does not initialise the counter (an atomic without initialiser is indeterminate/0): '
                          'the creator\'s reference is not counted', tu.fn_loc(f), key=key)
        elif val == 'copied':
            ctx.violation(R2, inst, 'constructor initialises the counter from another object\'s count: the new object starts with '
                          'references nobody holds and is never destroyed', tu.fn_loc(f), key=key)
        elif isinstance(val, int):
            ctx.violation(R2, inst, 'counter starts at %d instead of 1: the creator\'s reference is not counted, the first handle '
                          'released destroys the object while other references remain' % val, tu.fn_loc(f), key=key)
        else:
            ctx.undecided(R2, inst, 'initial value of the counter is not a constant the analysis can read', tu.fn_loc(f))
    # -- refInc / refDec / useCount
    followed = set()
    n += check_rmw_fn(ctx, tu, finc, counter_ids, +1, file, followed)
    n += check_rmw_fn(ctx, tu, fdec, counter_ids, -1, file, followed)
    FOLLOWED_HELPERS[id(tu)] = followed
    n += 1
    g = tu.cfg(fuse)
    inst = 'RefCountedObject::useCount' + CONFIG_TAG[0]
    kinds = [atomic_call(tu, x, counter_ids) for b, i, x in g.stmts()]
    kinds = [k for k in kinds if k]
    rets = [x for b, i, x in g.stmts() if x.get('kind') == 'ReturnStmt']
    if any(k[0] in ('rmw', 'write') for k in kinds):
        ctx.violation(R2, inst, 'useCount modifies the counter', tu.fn_loc(fuse), key='%s|%s|RefCountedObject::useCount|writes' % (R2, file))
    elif returns_load(tu, fuse, counter_ids):
        ctx.ok(R2, inst, 'returns an atomic load of the counter', tu.fn_loc(fuse))
    else:
        ctx.undecided(R2, inst, 'return value is not recognisably a load of the counter', tu.fn_loc(fuse))
    return n, counter_ids


def returns_load(tu, fn, counter_ids, depth=0):
    """every return of fn yields an atomic load of the counter, directly or through followed helpers that do"""
    g = tu.cfg(fn)
    if g is None or depth > 3:
        return False
    rets = [x for b, i, x in g.stmts() if x.get('kind') == 'ReturnStmt']
    if not rets:
        return False
    for r in rets:
        e = tu.strip(tu.kids(r)[0], casts=True) if tu.kids(r) else None
        if e is None:
            return False
        if atomic_call(tu, e, counter_ids) == ('load',):
            continue
        cf = own_helper_call(tu, fn, e)
        if cf is not None and returns_load(tu, cf, counter_ids, depth + 1) and not any(
                (atomic_call(tu, x, counter_ids) or ('',))[0] in ('rmw', 'write') for b, i, x in tu.cfg(cf).stmts()):
            continue
        return False
    return True


def const_init(tu, init):
    if init is None:
        return None
    e = tu.strip(init)
    for _ in range(6):
        if e is None:
            return None
        cv = tu.sd(e).get('cv')
        if cv is not None:
            try:
                return int(cv)
            except ValueError:
                return None
        ks = tu.kids(e)
        if e.get('kind') in ('CXXConstructExpr', 'InitListExpr', 'CXXTemporaryObjectExpr', 'CXXFunctionalCastExpr') and len(ks) == 1:
            e = tu.strip(ks[0])
            continue
        if e.get('kind') in ('CXXConstructExpr', 'InitListExpr') and not ks:
            return 0
        return None
    return None


WRAPPER = {}               # id(tu) -> {'field': id of the RefCountedObject member, 'rec'/'recid': wrapper class} or None
FOLLOWED_HELPERS = {}      # id(tu) -> ids of RefCountedObject helpers whose bodies were spliced into refInc/refDec


def own_helper_call(tu, fn, x):
    """callee of x if x is a call, inside fn, of a member of the same class on *this, or of a member of the counter wrapper class on
    this->counter (or on *this inside the wrapper class); else None"""
    if x.get('kind') not in ('CXXMemberCallExpr', 'CXXOperatorCallExpr'):
        return None
    cf = tu.callee_fn(x)
    if cf is None or cf['id'] == fn['id'] or tu.cfg(cf) is None:
        return None
    s_, obj, a_ = tu.call_parts(x)
    if cf.get('recid') == fn.get('recid') and (obj is None or tu.is_this(obj)):
        return cf
    wr = WRAPPER.get(id(tu))
    if wr and cf.get('recid') == wr['recid'] and obj is not None:
        o = tu.strip(obj, casts=True)
        if o is not None and o.get('kind') == 'MemberExpr' and tu.sd(o).get('d') == wr['field'] and (not tu.kids(o) or tu.is_this(tu.kids(o)[0])):
            return cf
    return None


def touches_counter(tu, fn, counter_ids, depth=0):
    g = tu.cfg(fn)
    if g is None or depth > 4:
        return False
    for b, i, x in g.stmts():
        if atomic_call(tu, x, counter_ids) or x.get('kind') == 'CXXDeleteExpr' or fence_mo(tu, x) is not None:
            return True
        cf = own_helper_call(tu, fn, x)
        if cf is not None and touches_counter(tu, cf, counter_ids, depth + 1):
            return True
    return False


def expand_paths(tu, f, counter_ids, looped=False, depth=0, followed=None):
    """paths of f as item lists: ('S', node) statement elements, ('C', cond node, taken successor index) branch decisions,
    ('B', call id, return expr) the value a followed helper returned, ('U', text) something not understood.
    Calls on *this to other members of the same class that touch the counter / delete / fence (private helpers such as
    `bool dropReference()`) are followed: their paths are spliced in at the call site."""
    g = tu.cfg(f)
    out = []
    for path in (cfg_paths_unrolled(g) if looped else cfg_paths(g)):
        traces = [[]]
        for blk, taken in path:
            for e in blk.el:
                if e[0] != 'S':
                    continue
                x = tu.node(e[1])
                if x is None:
                    continue
                sub = None
                if x.get('kind') in ('CXXMemberCallExpr', 'CXXOperatorCallExpr'):
                    cf = own_helper_call(tu, f, x)
                    if cf is not None and touches_counter(tu, cf, counter_ids):
                        if depth >= 3 or tu.cfg(cf).back_edges() or cf.get('virt'):
                            sub = [[('U', 'call of %s at %s is not followed (depth / loop / virtual)' % (cf['q'], tu.loc(x)))]]
                        else:
                            if followed is not None:
                                followed.add(cf['id'])
                            sub = []
                            s2_, o2_, cargs = tu.call_parts(x)
                            consts = {}
                            for p_, a_ in zip(cf.get('params', []), cargs):
                                cv_ = tu.sd(tu.strip(a_)).get('cv') or tu.sd(a_).get('cv')
                                if cv_ is not None:
                                    consts[p_['id']] = cv_
                            for tr in expand_paths(tu, cf, counter_ids, False, depth + 1, followed):
                                tr = [('K', consts)] + list(tr)
                                rets = [it[1] for it in tr if it[0] == 'S' and it[1].get('kind') == 'ReturnStmt']
                                rexpr = tu.kids(rets[-1])[0] if rets and tu.kids(rets[-1]) else None
                                sub.append(list(tr) + [('B', x['id'], rexpr)])
                if sub is None:
                    for tr in traces:
                        tr.append(('S', x))
                else:
                    traces = [tr + st for tr in traces for st in sub][:256]
            if taken is not None and blk.cond:
                c = tu.node(blk.cond)
                if c is not None:
                    for tr in traces:
                        tr.append(('C', c, taken))
        out += traces
    return out


def check_rmw_fn(ctx, tu, f, counter_ids, sign, file, followed=None):
    R2 = 'R-C08-2'
    g = tu.cfg(f)
    name = f['q'].split('::')[-1]
    inst = 'RefCountedObject::%s%s' % (name, CONFIG_TAG[0])
    kbase = '%s|%s|RefCountedObject::%s|' % (R2, file, name)
    looped = bool(g.back_edges())
    if looped:
        lb = loop_blocks(g)
        # recognised wrong: a compare-exchange retry loop whose desired value is a local computed once, outside the loop, from the expected
        # value: a failed exchange reloads `expected`, the retry then installs the stale desired value and overwrites what the other
        # threads did to the counter in between
        body = tu.body(f)
        for b, i, x in g.stmts():
            ac = atomic_call(tu, x, counter_ids) if b.id in lb else None
            if ac and ac[0] == 'write' and ac[1].startswith('compare_exchange'):
                sd_, obj_, args_ = tu.call_parts(x)
                if len(args_) >= 2:
                    exp_id = tu.ref_decl(args_[0])
                    des_id = tu.ref_decl(args_[1])
                    dv = tu.node(des_id) if des_id is not None else None
                    if exp_id is not None and dv is not None and dv.get('kind') == 'VarDecl' and tu.kids(dv):
                        from_expected = any(y.get('kind') == 'DeclRefExpr' and y.get('referencedDecl', {}).get('id') == exp_id
                                            for k in tu.kids(dv) for y in tu.walk(k))
                        reassigned = any(y.get('kind') in ('BinaryOperator', 'CompoundAssignOperator', 'UnaryOperator') and
                                         (y.get('opcode', '').endswith('=') and y.get('opcode') not in ('==', '!=', '<=', '>=') or
                                          y.get('opcode') in ('++', '--')) and tu.ref_decl(tu.kids(y)[0]) == des_id for y in tu.walk(body))
                        if from_expected and not reassigned:
                            ctx.violation(R2, inst, '%s retries `%s` in a loop with the desired value `%s`, a local computed once before the loop '
                                          'from `%s`: when the exchange fails because another thread changed the counter, `%s` is reloaded but `%s` '
                                          'is not, so the retry installs a value derived from the old count - increments and decrements of the other '
                                          'threads in between are overwritten, useCount() no longer equals creator + live handles and the decision to '
                                          'delete is taken on a stale value' % (name, tu.show(x)[:60], dv.get('name'), tu.show(args_[0]),
                                                                                tu.show(args_[0]), dv.get('name')), tu.loc(x),
                                          key=kbase + 'cas-desired-not-recomputed')
                            return 1
        for b, i, x in g.stmts():
            if b.id in lb and atomic_call(tu, x, counter_ids):
                ctx.undecided(R2, inst, 'loop in %s that operates on the counter (compare-exchange loops are not modelled)' % name, tu.fn_loc(f))
                return 1
    # local variables initialised once (const auto c = --counter;)
    assigned = set()
    for b, i, x in g.stmts():
        if x.get('kind') in ('BinaryOperator', 'CompoundAssignOperator') and x.get('opcode', '').endswith('=') and x.get('opcode') not in ('==', '!=', '<=', '>='):
            lhs = tu.strip(tu.kids(x)[0])
            if lhs.get('kind') == 'DeclRefExpr':
                assigned.add(lhs.get('referencedDecl', {}).get('id'))
    paths = expand_paths(tu, f, counter_ids, looped, 0, followed)
    if not paths:
        ctx.undecided(R2, inst, 'no path through %s' % name, tu.fn_loc(f))
        return 1
    problems = []      # (kind, msg, loc)
    undec = []
    per_new = {v: [] for v in range(0, 4)}   # new value -> list of (deleted?) over feasible paths
    parked = {}        # new value -> node where `this` is handed to somebody else on a path that returns without destroying
    extra_cond = {}    # new value -> condition that (besides the RMW result) decides whether the object is destroyed
    for path in paths:
        rmw = []
        deletes = []
        loads = []
        seq = []          # ordering-relevant events in path order: ('fence', mo) ('rmw',) ('load', mo) ('delete',)
        wrote = False
        parks = []        # calls / assignments that hand `this` to somebody else
        manual = []       # destruction by hand: explicit destructor call / operator delete on `this`
        und0 = len(undec)
        env_vars = {}     # var decl id -> init expr
        feas = set(range(0, 4))
        cond_seen_before_rmw = False
        binds = []        # (call node id of a followed helper, its return expression on this path)
        kconsts = {}      # integral parameters of followed helpers bound to constant arguments (adjust(-1))
        free_conds = []   # conditions on this path whose outcome also depends on something other than the RMW result
        for item in path:
            if item[0] == 'B':
                binds.append((item[1], item[2]))
                continue
            if item[0] == 'U':
                undec.append(item[1])
                continue
            if item[0] == 'K':
                kconsts.update(item[1])
                continue
            if item[0] == 'S':
                x = item[1]
                a = atomic_call(tu, x, counter_ids)
                if a and a[0] == 'other' and a[1] in ('fetch_add', 'fetch_sub', 'operator+=', 'operator-='):
                    # the amount is a parameter of a followed helper that was called with a constant
                    s3_, o3_, a3_ = tu.call_parts(x)
                    pid_ = tu.ref_decl(a3_[0]) if a3_ else None
                    if pid_ in kconsts:
                        sign_ = -1 if a[1] in ('fetch_sub', 'operator-=') else 1
                        a = ('rmw', sign_ * int(kconsts[pid_]), 'old' if a[1].startswith('fetch_') else 'new', call_mo(tu, x, 1))
                fm = fence_mo(tu, x)
                if not a and x.get('kind') in CALLS + ('CXXConstructExpr',):
                    s_, o_, args_ = tu.call_parts(x)
                    if any(y.get('id') and tu.sd(y).get('d') in counter_ids for a_ in args_ for y in tu.walk(a_)):
                        undec.append('the counter is handed to %s at %s, whose effect on it is not followed' % (tu.sd(x).get('q', '?'), tu.loc(x)))
                if fm is not None:
                    seq.append(('fence', fm))
                if a:
                    if a[0] == 'rmw':
                        rmw.append((x, a))
                        seq.append(('rmw',))
                    elif a[0] == 'load':
                        loads.append(x)
                        seq.append(('load', call_mo(tu, x, 0) if tu.sd(x).get('q', '').split('::')[-1] == 'load' else None))
                    elif a[0] == 'write' and a[1].startswith('compare_exchange'):
                        wrote = True
                        problems.append(('cas-not-retried', 'the counter is updated by a single %s() that is not retried: when another thread '
                                         'changes the counter between the preceding load and the exchange, the exchange fails and this '
                                         '%s is silently dropped (the count drifts and the object is destroyed early / never)'
                                         % (a[1], 'increment' if sign > 0 else 'decrement'), tu.loc(x)))
                    elif a[0] == 'write':
                        wrote = True
                        problems.append(('non-atomic-update', 'the counter is written with %s() instead of one atomic read-modify-write: '
                                         'concurrent updates are lost' % a[1], tu.loc(x)))
                    else:
                        undec.append('unrecognised operation %s on the counter at %s' % (a[1], tu.loc(x)))
                def is_self(e_):
                    e_ = tu.strip(e_, casts=True)
                    for _ in range(4):      # a local initialised once with `this` (const RefCountedObject *self = this)
                        if e_ is not None and e_.get('kind') == 'DeclRefExpr' and e_.get('referencedDecl', {}).get('id') in env_vars:
                            e_ = tu.strip(env_vars[e_['referencedDecl']['id']], casts=True)
                    return e_ is not None and e_.get('kind') == 'CXXThisExpr'
                if x.get('kind') == 'CXXMemberCallExpr' and '::~' in tu.sd(x).get('q', ''):
                    s_, o_, a_ = tu.call_parts(x)
                    if o_ is None or is_self(o_):
                        manual.append(('explicit destructor call', x))
                if x.get('kind') == 'CallExpr' and tu.sd(x).get('q', '').split('::')[-1] in ('operator delete', 'free', 'alignedFree') :
                    s_, o_, a_ = tu.call_parts(x)
                    if a_ and is_self(a_[0]):
                        manual.append(('%s(self)' % tu.sd(x).get('q'), x))
                if x.get('kind') == 'CXXDeleteExpr':
                    op = tu.kids(x)[0] if tu.kids(x) else None
                    if op is not None and is_self(op):
                        deletes.append(x)
                        seq.append(('delete',))
                    else:
                        undec.append('delete of something other than `this` at %s' % tu.loc(x))
                if x.get('kind') in CALLS or x.get('kind') == 'CXXConstructExpr':
                    s_, o_, args_ = tu.call_parts(x)
                    if any((tu.strip(a_, casts=True) or {}).get('kind') == 'CXXThisExpr' for a_ in args_):
                        parks.append(x)
                if x.get('kind') == 'BinaryOperator' and x.get('opcode') == '=' and \
                        (tu.strip(tu.kids(x)[1], casts=True) or {}).get('kind') == 'CXXThisExpr':
                    parks.append(x)
                if x.get('kind') == 'DeclStmt':
                    for v in tu.kids(x):
                        if v.get('kind') == 'VarDecl' and tu.kids(v) and v['id'] not in assigned:
                            env_vars[v['id']] = tu.kids(v)[-1]
                if x.get('kind') in ('UnaryOperator', 'BinaryOperator', 'CompoundAssignOperator'):
                    # plain (non-atomic) arithmetic on the counter member
                    o = tu.strip(tu.kids(x)[0], casts=True)
                    if o is not None and tu.sd(o).get('d') in counter_ids and x.get('opcode') in ('++', '--', '=', '+=', '-='):
                        problems.append(('non-atomic-update', 'plain `%s` on the counter' % x.get('opcode'), tu.loc(x)))
            elif item[0] == 'C':
                c, taken = item[1], item[2]
                if not rmw:
                    cond_seen_before_rmw = True
                # does the condition read the counter again?
                def rereads(expr):
                    """loads of the counter in expr: direct, or through an accessor (of this class / the counter wrapper) whose body loads
                    it without modifying it"""
                    out_ = []
                    wr_ = WRAPPER.get(id(tu))
                    for y in tu.walk(expr):
                        if not y.get('id'):
                            continue
                        ay = atomic_call(tu, y, counter_ids)
                        if ay and ay[0] == 'load':
                            out_.append(y)
                        elif y.get('kind') == 'CXXMemberCallExpr':
                            cf = tu.callee_fn(y)
                            if cf is not None and (cf.get('recid') == f.get('recid') or (wr_ and cf.get('recid') == wr_['recid'])) and \
                                    tu.cfg(cf) is not None:
                                ops = [atomic_call(tu, z, counter_ids) for _b, _i, z in tu.cfg(cf).stmts()]
                                if any(o_ and o_[0] == 'load' for o_ in ops) and not any(o_ and o_[0] in ('rmw', 'write') for o_ in ops):
                                    out_.append(y)
                    return out_
                reread = rereads(c)
                for vid, init in env_vars.items():
                    if any(y.get('kind') == 'DeclRefExpr' and y.get('referencedDecl', {}).get('id') == vid for y in tu.walk(c)):
                        reread += rereads(init)
                if reread and sign < 0:
                    problems.append(('separate-load', 'the decision to destroy the object reads the counter again (%s) instead of using the '
                                     'result of the decrement itself: two releasing threads can both observe 0 (double delete) or neither'
                                     % tu.show(c), tu.loc(c)))
                    continue
                if len(rmw) == 1:
                    x, a = rmw[0]
                    ok_vals = set()
                    known = True
                    for new in sorted(feas):
                        res = new if a[2] == 'new' else new - a[1]
                        env = {x['id']: res}
                        for cid, rexpr in binds:          # helper results may feed locals (const bool wasLast = counter.release())
                            v = int_eval(tu, rexpr, env) if rexpr is not None else None
                            if v is not None:
                                env[cid] = v
                        for vid, init in env_vars.items():
                            v = int_eval(tu, init, env)
                            if v is not None:
                                env[vid] = v
                        for cid, rexpr in binds:          # value returned by a followed helper on this path
                            v = int_eval(tu, rexpr, env) if rexpr is not None else None
                            if v is not None:
                                env[cid] = v
                        v = int_eval(tu, c, env)
                        if v is None:
                            # parts of the condition that do not come from the RMW (a flag member, a call): either value is possible
                            atoms = free_atoms(tu, c, env)
                            poss = set()
                            if atoms and len(atoms) <= 3:
                                import itertools
                                for vals_ in itertools.product((0, 1), repeat=len(atoms)):
                                    e2 = dict(env)
                                    e2.update({a_['id']: v_ for a_, v_ in zip(atoms, vals_)})
                                    poss.add(int_eval(tu, c, e2))
                            if not poss or None in poss:
                                known = False
                                break
                            if (taken == 0) in {bool(p_) for p_ in poss}:
                                ok_vals.add(new)
                                if len({bool(p_) for p_ in poss}) > 1:
                                    free_conds.append(tu.show(c))
                            continue
                        if bool(v) == (taken == 0):
                            ok_vals.add(new)
                    bound = [cid for cid, r_ in binds]
                    depends = any(y.get('kind') == 'DeclRefExpr' and y.get('referencedDecl', {}).get('id') in env_vars and
                                  any(z.get('id') in bound for z in tu.walk(env_vars[y['referencedDecl']['id']])) for y in tu.walk(c)) or \
                        any(y.get('id') in [cid for cid, r_ in binds] for y in tu.walk(c)) or \
                        any(y.get('id') == x['id'] for y in tu.walk(c)) or any(
                        y.get('kind') == 'DeclRefExpr' and y.get('referencedDecl', {}).get('id') in env_vars and
                        any(z.get('id') == x['id'] for z in tu.walk(env_vars[y['referencedDecl']['id']])) for y in tu.walk(c))
                    if not known and not depends:
                        pass      # a condition that does not involve the result of the decrement: either edge may be taken
                    elif not known:
                        undec.append('branch condition `%s` at %s is not a comparison of the RMW result with a constant' % (tu.show(c), tu.loc(c)))
                    else:
                        feas = ok_vals
                else:
                    undec.append('branch `%s` before the atomic operation at %s' % (tu.show(c), tu.loc(c)))
        if len(rmw) != 1 or rmw[0][1][1] != sign:
            what = ', '.join('%+d' % a[1] for x, a in rmw) or 'none'
            if feas and not wrote:
                problems.append(('not-one-rmw', '%s must perform exactly one atomic %s of the counter on every path; this path performs: %s'
                                 % (name, 'increment' if sign > 0 else 'decrement', what), tu.fn_loc(f)))
            continue
        mo = rmw[0][1][3]
        if sign < 0:
            # ordering of the destruction (relaxed=0 consume=1 acquire=2 release=3 acq_rel=4 seq_cst=5):
            #  * every decrement must be a release operation (or follow a release fence), so that what this owner did to the
            #    object happens-before the destruction by whoever drops the last reference;
            #  * the path that deletes must acquire after its decrement (acq_rel/seq_cst decrement, an acquire fence, or an
            #    acquire load of the counter), so that the destruction happens-after the other owners' releases.
            ri = seq.index(('rmw',))
            before, after = seq[:ri], seq[ri + 1:]
            if 'delete' in [e[0] for e in after]:
                after = after[:[e[0] for e in after].index('delete')]
            mos = [mo] + [e[1] for e in seq if e[0] in ('fence', 'load')]
            if any(m in ('?', '1') for m in mos):
                undec.append('memory order that is not a constant / memory_order_consume in %s' % name)
            else:
                rel = mo in (None, '5', '4', '3') or any(e[0] == 'fence' and e[1] in ('3', '4', '5') for e in before)
                acq = mo in (None, '5', '4', '2') or any((e[0] == 'fence' and e[1] in ('2', '4', '5')) or
                                                         (e[0] == 'load' and e[1] in (None, '2', '5')) for e in after)
                names = {'0': 'relaxed', '2': 'acquire', '3': 'release'}
                if not rel:
                    problems.append(('decrement-not-release', 'the decrement uses memory_order_%s and no release fence precedes it: what this owner '
                                     'did to the object does not happen-before its destruction by the thread that drops the last reference '
                                     '(the destructor races with this owner\'s accesses)' % names.get(mo, mo), tu.loc(rmw[0][0])))
                elif deletes and not acq:
                    problems.append(('no-acquire-before-delete', 'the decrement uses memory_order_%s and nothing acquires between it and `delete this` '
                                     '(needed: acq_rel/seq_cst on the decrement, or an acquire fence / acquire load of the counter before the '
                                     'delete): the destruction does not happen-after the other owners\' last accesses, the destructor races '
                                     'with them' % names.get(mo, mo), tu.loc(deletes[0])))
        if sign > 0 and deletes:
            problems.append(('delete-in-inc', 'refInc destroys the object', tu.loc(deletes[0])))
        if len(deletes) > 1:
            problems.append(('double-delete', 'a path deletes the object twice', tu.loc(deletes[1])))
        if manual and not deletes and sign < 0:
            problems.append(('manual-destroy', 'the last release destroys the object by hand (%s) instead of `delete this`: the storage is '
                             'released through the address of the RefCountedObject sub-object, which is not the address the object was '
                             'allocated at when RefCountedObject is not the first base class, and a class-specific operator delete of the '
                             'derived type is bypassed; only `delete this` through the virtual destructor finds the complete object'
                             % ' + '.join(m[0] for m in manual), tu.loc(manual[0][1])))
            continue
        for new in feas:
            per_new[new].append(bool(deletes))
            if not deletes and free_conds and new == 0 and len(undec) == und0:
                extra_cond.setdefault(0, free_conds[0])
            if not deletes and parks and len(undec) == und0:
                parked.setdefault(new, parks[0])
    if sign < 0 and not problems and undec and 0 in parked:
        # a fully understood path parks `this` and returns although the decrement produced 0 (other paths may be unrecognised)
        pn = parked[0]
        problems.append(('destroy-deferred', 'on a path where the decrement produced 0 (last reference released) refDec hands `this` to '
                         '`%s` and returns without destroying the object: the destruction is deferred past the return of the operation '
                         'that released the last reference (the object outlives its last reference; whoever drains that storage '
                         'destroys it later)' % tu.show(pn), tu.loc(pn)))
    if sign < 0 and not problems and not undec:
        for new, ds in sorted(per_new.items()):
            if not ds:
                undec.append('no feasible path for a decrement producing %d' % new)
            elif new == 0 and not all(ds) and 0 in parked:
                pn = parked[0]
                problems.append(('destroy-deferred', 'on a path where the decrement produced 0 (last reference released) refDec hands `this` to '
                                 '`%s` and returns without destroying the object: the destruction is deferred past the return of the operation '
                                 'that released the last reference (the object outlives its last reference; whoever drains that storage '
                                 'destroys it later)' % tu.show(pn), tu.loc(pn)))
            elif new == 0 and not all(ds) and 0 in extra_cond:
                problems.append(('conditional-destroy', 'when the decrement produces 0 (last reference released) the destruction additionally '
                                 'depends on `%s`: on the path where that part is false the object outlives its last reference and is never '
                                 'destroyed by the release (the property requires the operation that releases the last reference to destroy '
                                 'the object, whatever other state says)' % extra_cond[0], tu.fn_loc(f)))
            elif new == 0 and not all(ds):
                problems.append(('delete-condition', 'when the decrement produces 0 (last reference released) a path does not destroy the '
                                 'object: it leaks / the condition tests the wrong value of the RMW', tu.fn_loc(f)))
            elif new > 0 and any(ds):
                problems.append(('delete-condition', 'the object is destroyed when the decrement produces %d (references remain)' % new,
                                 tu.fn_loc(f)))
    if problems:
        seen = set()
        for kind, msg, loc in problems:
            if kind in seen:
                continue
            seen.add(kind)
            ctx.violation(R2, inst, msg, loc, key=kbase + kind)
    elif undec:
        for u in sorted(set(undec)):
            ctx.undecided(R2, inst, u, tu.fn_loc(f))
    else:
        ctx.ok(R2, inst, 'one atomic %s on each of %d path(s)%s' % ('increment' if sign > 0 else 'decrement', len(paths),
                                                                     '; delete this iff the RMW produced 0' if sign < 0 else ''), tu.fn_loc(f))
    return 1


# ============================================================================================
#  R-C08-4 coverage, W-C08-2 witness
# ============================================================================================
def check_coverage(ctx, tu, seen_patterns, counter_ids, lib_tus):
    R4 = 'R-C08-4'
    ctx.describe(R4, 'every function that names the pointer member, the counter, refInc or refDec is an analysed member; every '
                     'member template pattern of IntrusivePtr has an analysed instantiation')
    n = 0
    field_ids = set()
    for r in tu.records.values():
        if r.get('tmpl') == IP:
            field_ids |= {fd['id'] for fd in r['fields']}
    # patterns without instantiation
    for f in tu.functions.values():
        if f['dep'] and (f.get('rec') == IP or (not f.get('rec') and f['q'].startswith('rkcommon::memory::'))):
            n += 1
            if f['id'] in seen_patterns:
                ctx.ok(R4, pattern_name(tu, f), 'instantiated and analysed', tu.fn_loc(f), nontrivial=False)
            else:
                ctx.undecided(R4, pattern_name(tu, f), 'template member has no instantiation in drivers/c08_refcount.cpp: its effects '
                              'were not analysed', tu.fn_loc(f))
    analysed_patterns = {pattern_name(tu, f) for f in tu.functions.values() if not f['dep'] and (
        (f.get('rec') == IP and (role_of(f) is not None or is_private_helper(tu, f))) or (f.get('rec') == RCO and (f['q'] in (INC, DEC, USE) or f.get('ctor') or f.get('dtor')))
        or (not f.get('rec') and role_of(f) in ('compare', 'free-reader')))}
    # who touches, in the driver unit and in every library source
    for t in [tu] + list(lib_tus):
        for f in t.functions.values():
            if f['dep']:
                continue
            file = norm_file(t.fn_file(f))
            if file.startswith('verif:') or file.startswith('/verif') or '/drivers/' in file or file.startswith('drivers/'):
                continue
            fids = field_ids if t is tu else {fd['id'] for r in t.records.values() if r.get('tmpl') == IP for fd in r['fields']}
            cids = (counter_ids | ({WRAPPER[id(tu)]['field']} if WRAPPER.get(id(tu)) else set())) if t is tu else set()
            tch = touches(t, f, fids, cids)
            if t is not tu:
                # other units: match by qualified name of the member / callee
                b = t.body(f)
                if not (f.get('rec') in (IP, RCO) or (not f.get('rec') and f['q'].startswith('rkcommon::memory::') and role_of(f) is not None)):
                    tch = set()          # users of the handle: only direct access to the data members matters
                    for x in (t.walk(b) if b is not None else ()):
                        sd = t.sd(x) if x.get('id') else {}
                        if sd.get('rec') in (IP, RCO) and sd.get('k') == 'member' and 'fi' in sd:
                            par = t.par(x)
                            if par is not None and par.get('kind') == 'ImplicitCastExpr' and par.get('castKind') == 'LValueToRValue':
                                continue     # a read of the public pointer member
                            tch.add(sd.get('q', '?'))
            if not tch:
                continue
            n += 1
            own = f.get('rec') in (IP, RCO) or (not f.get('rec') and f['q'].startswith('rkcommon::memory::') and role_of(f) is not None)
            inst = '%s %s [%s]' % (f['q'], f['fty'], t.unit)
            wr = WRAPPER.get(id(tu))
            if t is tu and wr and f.get('rec') == wr['rec']:
                # member of the class that wraps the atomic counter
                if wr['rec'].startswith(RCO + '::') and not f.get('virt'):
                    ctx.ok(R4, inst, 'member of the counter wrapper class nested in RefCountedObject: reachable only through this->%s in '
                           'RefCountedObject\'s own members, which are analysed with these members followed' % wr['name'], t.fn_loc(f), nontrivial=False)
                else:
                    ctx.undecided(R4, inst, 'the counter is wrapped in a class that is not nested in RefCountedObject', t.fn_loc(f))
                continue
            if own and t is tu:
                known = (f.get('rec') == RCO and (f['q'] in (INC, DEC, USE) or f.get('ctor') or f.get('dtor'))) or \
                        (f.get('rec') != RCO and (role_of(f) is not None or is_private_helper(tu, f)))
                if 'counter' in tch and not (f.get('rec') == RCO and (f['q'] in (INC, DEC, USE) or f.get('ctor'))):
                    known = False
                if f.get('rec') == RCO and f['id'] in FOLLOWED_HELPERS.get(id(tu), ()) and f.get('access') == 'private' \
                        and not f.get('virt') and not has_friends(tu, RCO.split('::')[-1]):
                    known = True      # private helper whose body was spliced into refInc/refDec at every call site
                if known:
                    ctx.ok(R4, inst, 'analysed (%s)' % ', '.join(sorted(tch)), t.fn_loc(f), nontrivial=False)
                else:
                    ctx.undecided(R4, inst, 'touches %s but is not one of the analysed operations' % ', '.join(sorted(tch)), t.fn_loc(f))
            elif own and file == HDR and pattern_name(t, f) in analysed_patterns:
                ctx.ok(R4, inst, 'instantiation of an analysed member of %s in another unit' % HDR, t.fn_loc(f), nontrivial=False)
            else:
                ctx.undecided(R4, inst, 'library code outside the handle class manipulates %s directly' % ', '.join(sorted(tch)), t.fn_loc(f))
    return n


def check_witness(ctx):
    W2 = 'W-C08-2'
    ctx.describe(W2, 'IntrusivePtr<int> does not compile; the same unit with a RefCountedObject-derived pointee does')
    compilers = ['clang++'] + (['g++'] if ctx.tier == 'thorough' else [])
    n = 0
    for cc in compilers:
        rc0, err0 = ctx.front.compile_check('witness/c08_intrusive_int.cpp', extra=('-DRKVERIF_CONTROL',), compiler=cc)
        if rc0 != 0:
            ctx.broken('W-C08-2: control unit does not compile with %s:\n%s' % (cc, err0[-1500:]))
            continue
        rc1, err1 = ctx.front.compile_check('witness/c08_intrusive_int.cpp', compiler=cc)
        n += 1
        if rc1 == 0:
            ctx.violation(W2, 'IntrusivePtr<int> [%s]' % cc, 'a handle to a type that is not derived from RefCountedObject compiles',
                          HDR, key='%s|%s|IntrusivePtr|accepts-non-refcounted' % (W2, HDR))
        else:
            ctx.ok(W2, 'IntrusivePtr<int> [%s]' % cc, 'rejected at compile time', HDR)
    ctx.floor(W2, n, len(compilers), 'one must-fail unit per compiler')


def check_mixed_compare(ctx, tu, floor):
    """R-C08-5: what overload resolution selects for `IntrusivePtr<T> ==/!= IntrusivePtr<U>` with T != U in the drivers"""
    R5 = 'R-C08-5'
    ctx.describe(R5, 'a comparison between handles of different pointee types resolves to a handle comparison function (whose body is '
                     'decided by R-C08-3), never to the built-in comparison of two implicit operator bool() conversions')
    fs = [f for f in tu.fns(q='rkverif::mixed_compare', dep=False) if tu.body(f) is not None]
    if len(fs) != 1:
        ctx.broken('R-C08-5: driver function rkverif::mixed_compare not found in %s' % tu.unit)
        return
    n = 0
    for x in tu.walk(tu.body(fs[0])):
        k = x.get('kind')
        if k == 'CXXOperatorCallExpr' and re.match(r'rkcommon::memory::operator(==|!=|<|>|<=|>=)$', tu.sd(x).get('q', '')):
            n += 1
            cf = tu.callee_fn(x)
            if cf is None or tu.cfg(cf) is None:
                ctx.undecided(R5, '%s [%s]' % (tu.show(x), tu.unit), 'selected comparison function has no body to analyse', tu.loc(x))
            else:
                ctx.ok(R5, '%s [%s]' % (tu.show(x), tu.unit), 'resolves to %s %s (analysed by R-C08-3)' % (tu.sd(x).get('q'), cf['fty']), tu.loc(x))
        elif k == 'BinaryOperator' and x.get('opcode') in ('==', '!=', '<', '>', '<=', '>='):
            n += 1
            convs = [y for y in tu.walk(x) if y.get('kind') == 'CXXMemberCallExpr' and tu.sd(y).get('rec') == IP
                     and tu.sd(y).get('q', '').split('::')[-1] == 'operator bool']
            if len(convs) >= 2:
                types = [tu.sd(tu.call_parts(y)[1]).get('ct', '?').replace('const ', '').replace('rkcommon::memory::', '') for y in convs[:2]]
                ctx.violation(R5, '%s [%s]' % (tu.show(x), tu.unit),
                              '`%s` between %s and %s resolves to the built-in comparison of two implicit operator bool() conversions (no handle '
                              'comparison accepts two different pointee types): any two non-empty handles of different static types compare '
                              'equal although they point at different objects' % (x.get('opcode'), types[0], types[1]), tu.loc(x),
                              key='%s|%s|operator==|mixed-type-through-bool' % (R5, HDR))
            else:
                ctx.undecided(R5, '%s [%s]' % (tu.show(x), tu.unit), 'built-in comparison selected for two handles in a form the analysis does '
                              'not recognise', tu.loc(x))
    ctx.floor(R5, n, floor, 'mixed-type comparisons in rkverif::mixed_compare of %s' % tu.unit)


def analyse(ctx, tu, lib_tus, floors=True):
    seen = set()
    n1, n3 = check_effects(ctx, tu, seen)
    n2, counter_ids = check_counter(ctx, tu)
    n4 = check_coverage(ctx, tu, seen, counter_ids, lib_tus)
    check_mixed_compare(ctx, tu, 8)
    if floors:
        ctx.floor('R-C08-1', n1, 90, 'members x pointee types x entry scenarios on the pinned tree')
        ctx.floor('R-C08-3', n3, 30, '3 comparison operators x 2 pointee types x entry scenarios')
        ctx.floor('R-C08-2', n2, 5, 'counter type, initial value, refInc, refDec, useCount')
        ctx.floor('R-C08-4', n4, 20, 'template patterns + functions touching the tracked members')


def run(ctx):
    ctx.assume('a handle object is not modified by one thread while another thread uses the same handle object (shared_ptr contract); '
               'distinct handles to one pointee may be used concurrently')
    ctx.assume('callers of refInc/refDec and of the raw-pointer constructor/assignment pass pointers to live objects and only release '
               'counts they own')
    ctx.assume('the pointee destructor does not re-enter the handle being assigned')
    jobs = [dict(unit='drivers/c08_refcount.cpp', config='TBB')]
    jobs += [dict(unit=u, config='TBB') for u in ctx.front.library_sources()]
    tus = ctx.front.parse_many(jobs)
    analyse(ctx, tus[0], tus[1:])
    check_witness(ctx)
    # unrelated pointee types: rejected at compile time, or analysed like every other comparison
    rc, err = ctx.front.compile_check('drivers/c08_unrelated.cpp')
    if rc != 0:
        if 'IntrusivePtr' in err and 'error' in err:
            ctx.ok('R-C08-5', 'comparisons of handles to unrelated pointee types', 'rejected at compile time', HDR, nontrivial=False)
        else:
            ctx.broken('R-C08-5: drivers/c08_unrelated.cpp does not compile for an unexpected reason:\n%s' % err[-800:])
    else:
        tu_u = ctx.front.parse('drivers/c08_unrelated.cpp', 'TBB')
        seen_u = set()
        check_effects(ctx, tu_u, seen_u)
        check_mixed_compare(ctx, tu_u, 4)
    # the release build: the front end normally keeps assert() alive (-UNDEBUG); everything the property needs must also hold
    # with -DNDEBUG, where the argument of every assert() disappears (a refInc() inside an assert is gone)
    CONFIG_TAG[0] = ' {built with -DNDEBUG}'
    try:
        tu_nd = ctx.front.parse('drivers/c08_refcount.cpp', 'TBB', extra=('-DNDEBUG',))
        check_effects(ctx, tu_nd, set())
        check_counter(ctx, tu_nd)
    finally:
        CONFIG_TAG[0] = ''
    # the header is also compiled by clients and in the other tasking configurations: preprocessor-conditional code (a counter that
    # is atomic only when a tasking macro is defined) must satisfy the clauses in each of them.  DEBUG = no RKCOMMON_TASKING_* macro,
    # which is also what a header-only client of IntrusivePtr.h sees.
    for cfg in (['DEBUG'] if ctx.tier != 'thorough' else ['DEBUG', 'OMP', 'INTERNAL']):
        CONFIG_TAG[0] = ' {tasking configuration %s}' % cfg
        try:
            tu_c = ctx.front.parse('drivers/c08_refcount.cpp', cfg)
            check_effects(ctx, tu_c, set())
            check_counter(ctx, tu_c)
        finally:
            CONFIG_TAG[0] = ''
    if ctx.tier == 'thorough':
        tu2 = ctx.front.parse('drivers/c08_refcount.cpp', 'DEBUG', std='gnu++17')
        analyse(ctx, tu2, [])
    from rkstatic import selftest
    selftest.run(ctx)
