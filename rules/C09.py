"""C09 - Optional and Any behave as value types for every payload type and history.

Decided statically (see DESIGN.md section 5, C09):
  R-C09-1  Optional storage typestate: on every CFG path of every member (callees inlined), the raw
           storage holds a live payload exactly when the engaged flag is set; no payload operation on
           empty storage; no construction over a live payload; destructor leaves nothing alive.
  R-C09-2  Optional comparisons dereference only engaged operands (same engine, free functions).
  W-C09-1  layout witness: storage is suitably aligned for the payload.
  R-C09-3  Any: every dereference of the holder pointer is dominated by a validity test.
  R-C09-4  Any: copy = clone() of a valid source; assignment installs a fresh holder.
  R-C09-5  Any::get<T>: the typed access is guarded by the exact-type test, every other path throws
           std::runtime_error.
  R-C09-6  Any: possibly-null holder pointers are not dereferenced by the holder virtuals they are passed to.
  R-C09-7  Optional<T>, T not trivially copyable: the storage bytes are only a placement-new address or the operand
           of a cast to T*; they are never copied, swapped, assigned or filled as bytes.
"""
import re

from rkstatic.interp import ObjInterp, freeze, thaw

LEVEL = 'other'
EXPLANATION = (
    "Typestate analysis over clang CFGs of every instantiated Optional member (payloads int, double, "
    "std::string, std::vector<int>, an alignas(64) class; callees inlined, branches refined on the engaged "
    "flag) decides, for all histories at once, the per-operation invariant 'storage holds a live payload iff "
    "the flag is set' and that no payload operation touches empty storage; a null-guard dominance analysis "
    "decides that Any never dereferences an empty holder; layout facts from clang's record layout decide "
    "alignment. Not decided: behaviour of the payload type itself, aliasing of *this and the argument "
    "(self-assignment).")

OPT = 'rkcommon::utility::Optional'
ANY = 'rkcommon::utility::Any'


def pattern_name(tu, f):
    p = tu.functions.get(f.get('pat')) if f.get('pat') else None
    if p is None:
        p = f
    q = re.sub(r'<[^<>]*(<[^<>]*>[^<>]*)*>', '', p['q'])
    return '%s %s' % (q.replace('rkcommon::utility::', ''), p['fty'])


# ============================================================================================
#  Optional typestate
# ============================================================================================
class OptInterp(ObjInterp):
    def __init__(self, tu, flag, storage):
        super().__init__(tu)
        self.flag = flag
        self.storage = storage
        self.triv = {}
        self.tcopy = {}
        self.storage_name = None

    def is_own_fn(self, f):
        if _opt_rec(f.get('rec')):
            return True
        # free helpers of the library that take Optionals (e.g. a both_engaged(lhs, rhs) predicate) are inlined as well
        return not f.get('rec') and f.get('q', '').startswith('rkcommon::utility::') and \
            any(is_opt_type(p['ct'])[0] for p in f.get('params', []))

    def local_init_state(self):
        return 'EU'

    def looks_own(self, sd):
        if _opt_rec(sd.get('rec')):
            return True
        f = self.tu.functions.get(sd.get('def') or sd.get('d'))
        return f is not None and self.is_own_fn(f)

    def on_dtor_elem(self, elem, st, fr):
        """implicit destruction of a base class that holds the Optional's state: its destructor runs on the same object"""
        if elem and elem[0] == 'BD' and len(elem) > 1 and any(str(elem[1]).startswith(b + '<') for b in OPT_BASES) and fr.env.get('this'):
            for f in self.tu.functions.values():
                if not f.get('dep') and _opt_rec(f.get('rec')) and f['q'].split('::')[-1].startswith('~') and \
                        f.get('rect', '').replace(' ', '') == str(elem[1]).replace(' ', '') and self.tu.cfg(f) is not None:
                    outs = self.run_fn(f, {'this': fr.env['this']}, st, fr, None, 2)
                    res = []
                    for s2, _ in outs:
                        if s2 not in res:
                            res.append(s2)
                    return res
            self.undecided.append('destructor of the base class %s has no body to analyse' % elem[1])
        return [st]

    # ---- expression evaluation
    def field_obj(self, e, fr, name):
        """obj if e is <obj>.<name>"""
        tu = self.tu
        e = tu.strip(e, casts=True)
        if e is None or e.get('kind') != 'MemberExpr' or e.get('name') != name:
            return None
        ks = tu.kids(e)
        if not ks:
            return None
        return self.obj_of(ks[0], fr)

    def payload_of(self, e, st, fr, depth=0):
        tu = self.tu
        e = tu.strip(e, casts=True)
        if e is None or depth > 10:
            return None
        k = e.get('kind')
        o = self.field_obj(e, fr, self.storage)
        if o is not None:
            return o
        if k == 'UnaryOperator' and e.get('opcode') in ('*', '&'):
            return self.payload_of(tu.kids(e)[0], st, fr, depth + 1)
        if k in ('CXXMemberCallExpr', 'CXXOperatorCallExpr', 'CallExpr'):
            sd, obj, args = tu.call_parts(e)
            q = sd.get('q', '')
            if q in ('std::move', 'std::forward', 'std::addressof') and args:
                return self.payload_of(args[0], st, fr, depth + 1)
            if obj is not None:
                o = self.field_obj(obj, fr, self.storage)
                if o is not None:          # storage.data(), storage.begin(), storage[0] ...
                    return o
            if k == 'CXXOperatorCallExpr' and args is not None:
                # operator[] on the storage member
                ks = tu.kids(e)
                if len(ks) >= 2:
                    o = self.field_obj(ks[1], fr, self.storage)
                    if o is not None:
                        return o
            vals = self.call_value(e, st, fr)
            if vals:
                ps = {v[1] for v in vals if isinstance(v, tuple) and v[0] == 'payload'}
                if len(ps) == 1 and all(isinstance(v, tuple) and v[0] == 'payload' for v in vals):
                    return ps.pop()
        return None

    def aval(self, e, st, fr):
        p = self.payload_of(e, st, fr)
        if p is not None:
            return ('payload', p)
        return self.eval_bool(e, st, fr)

    def eval_bool(self, e, st, fr, depth=0):
        tu = self.tu
        e = tu.strip(e, casts=True)
        if e is None or depth > 10:
            return None
        k = e.get('kind')
        if k == 'CXXBoolLiteralExpr':
            return bool(e.get('value'))
        if k == 'UnaryOperator' and e.get('opcode') == '!':
            v = self.eval_bool(tu.kids(e)[0], st, fr, depth + 1)
            return None if v is None else (not v)
        if k == 'BinaryOperator' and e.get('opcode') in ('&&', '||'):
            a = self.eval_bool(tu.kids(e)[0], st, fr, depth + 1)
            b = self.eval_bool(tu.kids(e)[1], st, fr, depth + 1)
            if e['opcode'] == '&&':
                if a is False or b is False:
                    return False
                return True if (a and b) else None
            if a is True or b is True:
                return True
            return False if (a is False and b is False) else None
        o = self.field_obj(e, fr, self.flag)
        if o is not None:
            fl = thaw(st).get(o, '??')[1]
            return True if fl == 'T' else False if fl == 'F' else None
        cv = tu.sd(e).get('cv')
        if cv is not None and k not in ('CXXMemberCallExpr', 'CXXOperatorCallExpr', 'CallExpr'):
            return cv != '0'
        if k in ('CXXMemberCallExpr', 'CXXOperatorCallExpr', 'CallExpr'):
            vals = self.call_value(e, st, fr)
            if vals and all(isinstance(v, bool) for v in vals) and len(set(vals)) == 1:
                return vals[0]
        return None

    # ---- transfer
    def set_obj(self, st, o, storage=None, flag=None):
        d = thaw(st)
        cur = d.get(o)
        if cur is None:
            return st
        s, f = cur[0], cur[1]
        if storage is not None:
            s = storage
        if flag is not None:
            f = flag
        if flag == 'F' and storage is None and self.triv.get(o):
            s = 'E'  # trivially destructible payload: clearing the flag ends the payload's lifetime
        d[o] = s + f
        return freeze(d)

    def on_init(self, e, st, fr, depth=0):
        tu = self.tu
        init = tu.node(e[1])
        name = e[3]
        me = fr.env.get('this')
        if me is None:
            return [st]
        if name == self.flag:
            v = None
            if init is not None and init.get('kind') == 'CXXDefaultInitExpr':
                fd = tu.node(e[2])
                if fd is not None:
                    for x in tu.walk(fd):
                        if x.get('kind') == 'CXXBoolLiteralExpr':
                            v = bool(x.get('value'))
                            break
            elif init is not None:
                v = self.eval_bool(init, st, fr)
            if v is None:
                return [self.set_obj(st, me, flag='T'), self.set_obj(st, me, flag='F')]
            return [self.set_obj(st, me, flag='T' if v else 'F')]
        if name == '<base>' and init is not None and init.get('kind') == 'CXXConstructExpr':
            callee = tu.callee_fn(init)
            if callee is not None and self.is_own_fn(callee):
                env = {'this': me}
                s_, o_, args = tu.call_parts(init)
                for p, a in zip(callee.get('params', []), args):
                    ob = self.obj_of(a, fr)
                    if ob is not None:
                        env[p['id']] = ob
                outs = self.run_fn(callee, env, st, fr, init, depth + 1)
                return list({s2 for (s2, rv) in outs})
        return [st]

    def on_node(self, n, st, fr):
        tu = self.tu
        k = n.get('kind')
        if k == 'BinaryOperator' and n.get('opcode') == '=':
            ks = tu.kids(n)
            o = self.field_obj(ks[0], fr, self.flag)
            if o is not None:
                v = self.eval_bool(ks[1], st, fr)
                if v is None:
                    return [self.set_obj(st, o, flag='T'), self.set_obj(st, o, flag='F')]
                return [self.set_obj(st, o, flag='T' if v else 'F')]
            return [st]
        if k == 'CXXNewExpr' and tu.sd(n).get('nplace', 0) >= 1:
            ks = tu.kids(n)
            # placement arguments are the children that are not the constructor/initialiser
            cand = None
            for cid in tu.sd(n).get('pargs', []):
                c = tu.node(cid)
                if c is None:
                    continue
                o = self.payload_of(c, st, fr)
                if o is not None:
                    cand = o
                    break
            if cand is None:
                return [st]
            cur = thaw(st).get(cand)
            if cur is None:
                return [st]
            init = tu.node(tu.sd(n).get('init')) if tu.sd(n).get('init') else None
            init = tu.strip(init) if init is not None else None
            if init is not None and init.get('kind') in ('CXXConstructExpr', 'CXXTemporaryObjectExpr') \
                    and 'noexcept' not in tu.sd(init).get('fty', ''):
                # the payload constructor may throw: the function is left with the state *before* the construction
                self.report('exc-state', 'the payload constructor throws', n, fr, st)
            if thaw(st).get('@rhs') == 'DD' and cand == 'this' and init is not None and not self.triv.get(cand) \
                    and any(self.from_entry_ref(a, fr) for a in tu.kids(init)):
                self.report('alias-use-after-destroy', 'the new payload is constructed from the assignment\'s argument after the old payload '
                            'was destroyed; the argument is a reference that may refer to the old payload (`o = *o`, `s = s->c_str() + n`): '
                            'it is read after its referent\'s lifetime ended', n, fr, st)
            if cur[0] == 'L' and not self.triv.get(cand):
                self.report('construct-over-live', 'placement-new into the storage of `%s` while it still holds a live '
                            'payload (the old payload is never destroyed)' % cand, n, fr, st)
            return [self.set_obj(st, cand, storage='L')]
        if k == 'CXXOperatorCallExpr' and tu.sd(n).get('q', '').endswith('::operator=') and tu.sd(n).get('rec') != OPT:
            sd_, objx_, args_ = tu.call_parts(n)
            if objx_ is not None and args_ and self.storage_name:
                dst = self.field_obj(objx_, fr, self.storage_name)
                a0 = tu.strip(args_[0], casts=True)
                if a0 is not None and a0.get('kind') == 'CallExpr' and tu.sd(a0).get('q') in ('std::move', 'std::forward') and len(tu.kids(a0)) == 2:
                    a0 = tu.kids(a0)[1]
                src = self.field_obj(a0, fr, self.storage_name)
                if dst is not None and src is not None and self.tcopy.get(dst) and thaw(st).get(src) and thaw(st).get(dst):
                    # assignment of the whole storage array, payload trivially copyable: a byte copy is that type's copy operation, the
                    # destination holds a live payload exactly when the source does (R-C09-7 judges the other payload types)
                    return [self.set_obj(st, dst, storage=thaw(st)[src][0])]
            if objx_ is not None and self.payload_of(objx_, st, fr) is not None and 'noexcept' not in sd_.get('fty', ''):
                # assignment into the payload may throw: the function is left in the current state
                self.report('exc-state', 'the payload assignment throws', n, fr, st)
            return None
        if k in ('CXXMemberCallExpr', 'CallExpr'):
            ks = tu.kids(n)
            callee = tu.strip(ks[0]) if ks else None
            is_dtor = False
            objx = None
            if callee is not None and callee.get('kind') == 'CXXPseudoDestructorExpr':
                is_dtor = True
                objx = tu.kids(callee)[0] if tu.kids(callee) else None
            elif k == 'CXXMemberCallExpr' and '::~' in tu.sd(n).get('q', ''):
                is_dtor = True
                objx = tu.kids(callee)[0] if callee is not None and tu.kids(callee) else None
            if is_dtor and objx is not None:
                o = self.payload_of(objx, st, fr)
                if o is not None:
                    cur = thaw(st).get(o)
                    if cur is not None:
                        if cur[0] != 'L':
                            self.report('destroy-empty', 'destructor of the payload of `%s` is called while the storage '
                                        'holds no live object (double destruction)' % o, n, fr, st)
                        st2 = self.set_obj(st, o, storage='E')
                        if o == 'this' and thaw(st2).get('@rhs') == 'AA':
                            d2 = thaw(st2)
                            d2['@rhs'] = 'DD'       # the by-reference argument of the assignment may now dangle
                            st2 = freeze(d2)
                        return [st2]
                return [st]
        return None

    def from_entry_ref(self, e, fr, depth=0):
        """does the expression read (through forwarding parameters of inlined callees) a by-reference parameter of the entry function?"""
        tu = self.tu
        if e is None or depth > 12:
            return False
        for x in tu.walk(e):
            if x.get('kind') != 'DeclRefExpr':
                continue
            d = x.get('referencedDecl', {}).get('id')
            ps = fr.fn.get('params', [])
            idx = [i for i, p in enumerate(ps) if p['id'] == d]
            if idx:
                if fr.parent is None:
                    if ps[idx[0]]['ct'].rstrip().endswith('&') and not is_opt_type(ps[idx[0]]['ct'])[0]:
                        return True
                elif fr.call is not None:
                    args = tu.call_parts(fr.call)[2]
                    if idx[0] < len(args) and self.from_entry_ref(args[idx[0]], fr.parent, depth + 1):
                        return True
                continue
            vd = tu.node(d)
            if vd is not None and vd.get('kind') == 'VarDecl' and vd.get('type', {}).get('qualType', '').rstrip().endswith('&') and tu.kids(vd):
                if self.from_entry_ref(tu.kids(vd)[-1], fr, depth + 1):     # a local reference bound to the argument
                    return True
        return False

    def after_call(self, n, callee, env, st, rv, fr):
        tu = self.tu
        if isinstance(rv, tuple) and rv[0] == 'payload':
            o = rv[1]
            cur = thaw(st).get(o)
            if cur is not None and cur[0] != 'L':
                # exemption: the address only feeds a placement-new (starts the lifetime)
                p = tu.par(n)
                hops = 0
                while p is not None and hops < 6 and p.get('kind') in (
                        'ImplicitCastExpr', 'ParenExpr', 'UnaryOperator', 'CStyleCastExpr', 'CXXStaticCastExpr',
                        'CXXReinterpretCastExpr'):
                    p = tu.par(p)
                    hops += 1
                if p is not None and p.get('kind') == 'CXXNewExpr':
                    return [st]
                if p is not None and p.get('kind') == 'ReturnStmt':
                    return [st]  # forwarding accessor (operator*, operator->): the caller is checked instead
                self.report('use-empty', 'payload of `%s` is accessed through %s() while its storage holds no live object'
                            % (o, callee['q'].split('::')[-1]), n, fr, st)
        return [st]


OPT_BASES = set()       # template names of base classes of Optional that hold its state (filled by opt_fields)


def _opt_rec(rec):
    return rec == OPT or (rec in OPT_BASES if rec else False)


def opt_fields(tu):
    """(flag field name, storage field name) from any instantiated Optional record; the two members may live in a base class of
    Optional (a slot class), whose members then count as members of Optional"""
    for r in tu.records.values():
        if r.get('tmpl') == OPT and not r.get('lambda'):
            fs = r.get('fields', [])
            if not fs and len(r.get('bases', [])) == 1:
                b = r['bases'][0]
                bid = b.get('id') if isinstance(b, dict) else b
                br = tu.records.get(bid) or next((x for x in tu.records.values() if x.get('q') == (b.get('q') if isinstance(b, dict) else b)
                                                  or x.get('type') == (b.get('type') if isinstance(b, dict) else b)), None)
                if br is not None:
                    fs = br.get('fields', [])
                    if br.get('tmpl'):
                        OPT_BASES.add(br['tmpl'])
            flags = [f for f in fs if f['ct'] == 'bool']
            others = [f for f in fs if f['ct'] != 'bool']
            if len(flags) == 1 and len(others) == 1:
                return flags[0]['name'], others[0]['name']
            return None
    return None


def is_opt_type(ct):
    t = ct.replace('const ', '').replace('&', '').strip()
    return t.startswith(OPT + '<'), t


def check_optional(ctx, tu):
    R1, R2 = 'R-C09-1', 'R-C09-2'
    ctx.describe(R1, 'Optional storage typestate: (empty,flag clear) or (live,flag set) at every public entry and exit; '
                     'placement-new needs empty storage; payload access/destroy needs a live payload')
    ctx.describe(R2, 'Optional comparison operators dereference an operand only on paths where it is engaged')
    ff = opt_fields(tu)
    if ff is None:
        ctx.broken('R-C09-1: cannot identify the flag/storage members of %s (expected one bool + one storage member)' % OPT)
        return
    flag, storage = ff
    it = OptInterp(tu, flag, storage)
    entries = []
    for f in tu.functions.values():
        if f['dep'] or tu.cfg(f) is None:
            continue
        if f.get('rec') == OPT:
            entries.append((f, R1))
        elif f['q'].startswith('rkcommon::utility::') and not f.get('rec'):
            if any(is_opt_type(p['ct'])[0] for p in f['params']):
                entries.append((f, R2))
    n1 = n2 = 0
    n_exc = [0]
    for f, rule in entries:
        if f.get('access') in ('private', 'protected'):
            # a non-public helper is analysed in the context (and under the preconditions) of the public members that call it
            ctx.ok(rule, '%s %s' % (f['q'].replace('rkcommon::utility::', ''), f['fty']), 'non-public helper: analysed inlined into its public callers',
                   tu.fn_loc(f), nontrivial=False)
            if rule == R1:
                n1 += 1
            continue
        env = {}
        objs = {}
        triv = {}
        if f.get('rec'):
            env['this'] = 'this'
            r = tu.records.get(f['recid'])
            triv['this'] = bool(r and r.get('targs') and r['targs'][0].get('trivial_dtor'))
            if f.get('ctor'):
                objs['this'] = ['EU']
            else:
                objs['this'] = ['EF', 'LT']
        for p in f['params']:
            ok, t = is_opt_type(p['ct'])
            if ok:
                nm = p['name'] or ('arg%d' % len(objs))
                env[p['id']] = nm
                objs[nm] = ['EF', 'LT']
                r = tu.records_by_type.get(t)
                triv[nm] = bool(r and r.get('targs') and r['targs'][0].get('trivial_dtor'))
        if f.get('rec') and f['q'].endswith('::operator=') and len(f['params']) == 1 and not is_opt_type(f['params'][0]['ct'])[0] \
                and f['params'][0]['ct'].rstrip().endswith('&'):
            # value assignment from a reference: the argument may refer to (part of) the payload this Optional holds (`o = *o`)
            objs['@rhs'] = ['AA']
        it.triv = triv
        tcopy = {}
        if f.get('rec'):
            r = tu.records.get(f['recid'])
            tcopy['this'] = bool(r and r.get('targs') and r['targs'][0].get('trivially_copyable'))
        for p in f['params']:
            ok, t = is_opt_type(p['ct'])
            if ok and p['id'] in env:
                r = tu.records_by_type.get(t)
                tcopy[env[p['id']]] = bool(r and r.get('targs') and r['targs'][0].get('trivially_copyable'))
        it.tcopy = tcopy
        it.storage_name = (opt_fields(tu) or (None, None))[1]
        it.memo = {}  # summaries depend on the trivial-destructor table of the current entry
        names = sorted(objs)
        inits = [()]
        for nm in names:
            inits = [i + ((nm, v),) for i in inits for v in objs[nm]]
        inits = [freeze(dict(i)) for i in inits]
        pname = pattern_name(tu, f)
        inst = '%s %s' % (f['q'].replace('rkcommon::utility::', ''), f['fty'])
        file = tu.fn_file(f)
        before_und = len(it.undecided)
        results = it.analyse_entry(f, env, inits)
        for u in it.undecided[before_und:]:
            ctx.undecided(rule, inst, u, tu.fn_loc(f))
        for st, outs, found in results:
            if rule == R1:
                n1 += 1
            else:
                n2 += 1
            d0 = thaw(st)
            label = '%s [%s]' % (inst, ', '.join('%s=%s' % (k, v) for k, v in sorted(d0.items())))
            bad = False
            # documented precondition: accessors on an empty Optional
            if d0.get('this') == 'EF' and outs and all(isinstance(rv, tuple) and rv[0] == 'payload' and rv[1] == 'this'
                                                      and thaw(s2).get('this', 'L?')[0] == 'E' for s2, rv in outs):
                ctx.ok(rule, label, 'accessor: requires an engaged Optional (caller-side precondition); call sites are checked instead',
                       tu.fn_loc(f), nontrivial=False)
                continue
            delegating = any(e[0] == 'I' and e[3] == '<base>' for b in tu.cfg(f).blocks.values() for e in b.el)
            for kind, detail, nid, chain, fst, infn in found:
                path = list(chain) + ['at %s: %s' % (tu.loc(nid), tu.show(tu.node(nid)))] if nid else list(chain)
                inner = tu.functions.get(infn, f)
                if kind == 'exc-state':
                    # state in which the operation is abandoned when a payload constructor / assignment throws
                    n_exc[0] += 1
                    for o, v in sorted(thaw(fst).items()):
                        if '@' in o:
                            continue
                        if o == 'this' and f.get('ctor') and not delegating:
                            okv = (v[0] == 'E') or triv.get(o)      # object never comes to life: nothing may stay constructed
                        else:
                            okv = v in ('EF', 'LT')
                        if okv:
                            continue
                        bad = True
                        what = {'ET': 'flagged engaged although no payload was constructed (the next reset/assignment/destructor runs '
                                      'the payload destructor on dead storage)',
                                'LF': 'holding a constructed payload that is flagged empty (it is never destroyed)'}.get(v, 'in state ' + v)
                        ctx.violation(rule, label, 'if %s here, `%s` is left %s (entry state %s)' % (detail, o, what, dict(d0)),
                                      tu.loc(nid), key='%s|%s|%s|throw-leaves-%s-%s' % (rule, tu.fn_file(inner), pattern_name(tu, inner), o, v),
                                      path=path)
                    continue
                bad = True
                ctx.violation(rule, label, '%s (entry state %s)' % (detail, dict(d0)), tu.loc(nid) if nid else tu.fn_loc(f),
                              key='%s|%s|%s|%s' % (rule, tu.fn_file(inner), pattern_name(tu, inner), kind), path=path)
            for s2, rv in outs:
                if bad or f.get('access') not in (None, 'public', 'none'):
                    break  # consequences of a reported finding / private helper: the public callers are checked
                d = thaw(s2)
                for o, v in sorted(d.items()):
                    if '@' in o:
                        continue  # local object of an inlined callee
                    if f.get('dtor') and o == 'this':
                        if v[0] == 'L' and not triv.get('this'):
                            bad = True
                            ctx.violation(rule, label, 'destructor can return with the payload still alive (never destroyed)',
                                          tu.fn_loc(f), key='%s|%s|%s|dtor-leak' % (rule, file, pname))
                        continue
                    if v not in ('EF', 'LT'):
                        bad = True
                        what = {'ET': 'flag says engaged but the storage holds no live payload',
                                'LF': 'payload still alive but the flag is cleared (it will never be destroyed)',
                                'EU': 'flag left uninitialised', 'LU': 'flag left uninitialised'}.get(v, v)
                        ctx.violation(rule, label, 'on return `%s` is in state %s: %s (entry state %s)' % (o, v, what, dict(d0)),
                                      tu.fn_loc(f), key='%s|%s|%s|exit-%s-%s' % (rule, file, pname, o, v))
            if not bad:
                ctx.ok(rule, label, 'exits: %s' % sorted({tuple(sorted(thaw(s2).items())) for s2, _ in outs}), tu.fn_loc(f))
    ctx.floor(R1, n1, 150, 'members x payload types x entry states measured on the pinned tree: 264')
    ctx.floor(R1 + ' (exceptional exits)', n_exc[0], 20, 'potentially throwing payload constructions/assignments reached: 60+ on the pinned tree')
    ctx.extra['c09_exceptional_exit_states_checked'] = ctx.extra.get('c09_exceptional_exit_states_checked', 0) + n_exc[0]
    ctx.floor(R2, n2, 24, '6 comparison operators x operand states: 36 on the pinned tree')


# ============================================================================================
#  Optional layout witness
# ============================================================================================
def check_layout(ctx, tu):
    W = 'W-C09-1'
    ctx.describe(W, 'alignof(Optional<T>) >= alignof(T) and the storage member offset is a multiple of alignof(T)')
    n = 0
    for r in tu.records.values():
        if r.get('tmpl') != OPT or not r.get('targs'):
            continue
        ta = r['targs'][0]
        if 'align' not in ta:
            continue
        fields = r['fields']
        if not fields and len(r.get('bases', [])) == 1:
            br = next((x for x in tu.records.values() if x.get('type') == r['bases'][0] and x.get('tmpl') in OPT_BASES), None)
            if br is not None:
                fields = br['fields']       # single base at offset 0: the offsets of its members are those within the Optional
        others = [f for f in fields if f['ct'] != 'bool']
        if len(others) != 1:
            ctx.broken('W-C09-1: unexpected member list in %s' % r['q'])
            continue
        st = others[0]
        n += 1
        inst = 'Optional<%s>' % ta['t']
        if r['align'] % ta['align'] != 0 or st['off'] % ta['align'] != 0:
            ctx.violation(W, inst, 'payload needs alignment %d but the record has alignment %d and its storage member `%s` '
                          '(type alignment %d) sits at offset %d: constructing the payload there is misaligned'
                          % (ta['align'], r['align'], st['name'], st['talign'], st['off']), 'rkcommon/utility/Optional.h',
                          key='%s|rkcommon/utility/Optional.h|Optional|storage-alignment' % W)
        else:
            ctx.ok(W, inst, 'align %d >= %d, storage offset %d' % (r['align'], ta['align'], st['off']))
    ctx.floor(W, n, 5, 'payload types instantiated by drivers/wrappers.cpp')


# ============================================================================================
#  Any
# ============================================================================================
class AnyInterp(ObjInterp):
    """per object: 'V' (holder non-null) / 'N' (holder null)"""

    def __init__(self, tu, holder, holder_ct='', holder_qt=''):
        super().__init__(tu)
        self.holder = holder
        self.holder_ct = holder_ct
        self.holder_qt = holder_qt or holder_ct
        self.nullable_calls = {}

    def is_own_fn(self, f):
        return f.get('rec') == ANY

    def local_init_state(self):
        return 'U'

    def looks_own(self, sd):
        return sd.get('rec') == ANY

    def holder_obj(self, e, fr):
        tu = self.tu
        e = tu.strip(e, casts=True)
        if e is not None and e.get('kind') == 'DeclRefExpr':
            # a local of the holder's own type (`std::unique_ptr<handle_base> fresh;`) is tracked like a holder member
            d = tu.node(e.get('referencedDecl', {}).get('id'))
            if d is not None and d.get('kind') == 'VarDecl' and self.is_holder_local(d):
                return '%' + d.get('name', '?')
            return None
        if e is None or e.get('kind') != 'MemberExpr' or e.get('name') != self.holder:
            return None
        ks = tu.kids(e)
        return self.obj_of(ks[0], fr) if ks else None

    def is_holder_local(self, d):
        t = d.get('type', {})
        qt = (t.get('desugaredQualType') or t.get('qualType', '')).replace('const ', '').strip()
        return bool(self.holder_ct) and ('unique_ptr' in self.holder_ct or 'shared_ptr' in self.holder_ct) and \
            qt.replace(' ', '') in (self.holder_ct.replace(' ', ''), self.holder_qt.replace(' ', ''))

    def ptr_obj(self, e, fr):
        """obj if e evaluates to the raw holder pointer of obj: X.holder.get() / X.holder (bool ctx)"""
        tu = self.tu
        e = tu.strip(e, casts=True)
        if e is None:
            return None
        o = self.holder_obj(e, fr)
        if o is not None:
            return o
        if e.get('kind') in ('CXXMemberCallExpr', 'CXXOperatorCallExpr'):
            sd, obj, args = tu.call_parts(e)
            name = sd.get('q', '').split('::')[-1]
            if obj is not None and name in ('get', 'operator bool'):
                return self.holder_obj(obj, fr)
        if e.get('kind') == 'DeclRefExpr':
            # a local raw pointer initialised once from X.holder.get() stands for that holder pointer
            d = tu.node(e.get('referencedDecl', {}).get('id'))
            if d is not None and d.get('kind') == 'VarDecl' and tu.kids(d) and d.get('type', {}).get('qualType', '').rstrip().endswith('*') \
                    and d.get('id') not in self._reassigned(d):
                return self.ptr_obj(tu.kids(d)[-1], fr)
        return None

    def _reassigned(self, d):
        tu = self.tu
        fn = tu.enclosing_fn(d)
        key = fn['id'] if fn else None
        cache = self.__dict__.setdefault('_reassign_cache', {})
        if key not in cache:
            out = set()
            for x in tu.walk(fn) if fn else ():
                if x.get('kind') in ('BinaryOperator', 'CompoundAssignOperator') and x.get('opcode', '').endswith('=') and x.get('opcode') not in ('==', '!=', '<=', '>='):
                    r = tu.ref_decl(tu.kids(x)[0])
                    if r:
                        out.add(r)
                if x.get('kind') == 'UnaryOperator' and x.get('opcode') in ('++', '--', '&'):
                    r = tu.ref_decl(tu.kids(x)[0])
                    if r:
                        out.add(r)
            cache[key] = out
        return cache[key]

    def addr_obj(self, e, fr):
        """tracked object whose address the expression is: `this`, `&x`, `std::addressof(x)`"""
        tu = self.tu
        e = tu.strip(e, casts=True)
        if e is None:
            return None
        k = e.get('kind')
        if k == 'CXXThisExpr' or (k == 'UnaryOperator' and e.get('opcode') == '&') or \
                (k == 'CallExpr' and tu.sd(e).get('q') == 'std::addressof'):
            return self.obj_of(e, fr)
        return None

    def _old_payload_destroyed(self, d, o):
        """the holder of `o` is about to be replaced / reset while it owns a payload: the by-reference argument of a copy
        assignment may live inside that payload (`node = node.get<std::vector<Any>>()[1]`) and dangles from here on"""
        if o == 'this' and d.get(o) != 'N' and d.get('@rhs') == 'AA':
            d['@rhs'] = 'DD'

    def is_null(self, e):
        e = self.tu.strip(e, casts=True)
        if e is None:
            return False
        return e.get('kind') in ('CXXNullPtrLiteralExpr', 'GNUNullExpr') or (
            e.get('kind') == 'IntegerLiteral' and e.get('value') == '0')

    def eval_bool(self, e, st, fr, depth=0):
        tu = self.tu
        e = tu.strip(e, casts=True)
        if e is None or depth > 10:
            return None
        k = e.get('kind')
        if k == 'CXXBoolLiteralExpr':
            return bool(e.get('value'))
        if k == 'UnaryOperator' and e.get('opcode') == '!':
            v = self.eval_bool(tu.kids(e)[0], st, fr, depth + 1)
            return None if v is None else (not v)
        if k == 'BinaryOperator' and e.get('opcode') in ('&&', '||'):
            a = self.eval_bool(tu.kids(e)[0], st, fr, depth + 1)
            b = self.eval_bool(tu.kids(e)[1], st, fr, depth + 1)
            if e['opcode'] == '&&':
                if a is False or b is False:
                    return False
                return True if (a and b) else None
            if a is True or b is True:
                return True
            return False if (a is False and b is False) else None
        if k in ('BinaryOperator', 'CXXOperatorCallExpr') and (e.get('opcode') in ('==', '!=') or
                                                               tu.sd(e).get('q', '').split('::')[-1] in ('operator==', 'operator!=')):
            ks = tu.kids(e)
            if k == 'CXXOperatorCallExpr':
                ks = ks[1:]
                op = tu.sd(e).get('q', '').split('::')[-1][-2:]
            else:
                op = e.get('opcode')
            if len(ks) == 2 and all('bool' in (x.get('type', {}).get('qualType', '')) for x in (tu.strip(ks[0], casts=True) or {},
                                                                                             tu.strip(ks[1], casts=True) or {})):
                va = self.eval_bool(ks[0], st, fr, depth + 1)
                vb = self.eval_bool(ks[1], st, fr, depth + 1)
                if va is not None and vb is not None:
                    return (va == vb) if op == '==' else (va != vb)
                return None
            if len(ks) == 2:
                oa, ob = (self.addr_obj(x, fr) for x in ks)
                if oa is not None and ob is not None:
                    # `this == &rhs`: entries are analysed for distinct objects (self-assignment is the separate aliasing clause)
                    return (oa == ob) if op == '==' else (oa != ob)
                for a, b in ((ks[0], ks[1]), (ks[1], ks[0])):
                    o = self.ptr_obj(a, fr)
                    if o is not None and self.is_null(b):
                        v = thaw(st).get(o)
                        if v in ('V', 'N'):
                            isnull = (v == 'N')
                            return isnull if op == '==' else (not isnull)
            return None
        o = self.ptr_obj(e, fr)
        if o is not None:
            v = thaw(st).get(o)
            return True if v == 'V' else False if v == 'N' else None
        if k == 'DeclRefExpr' and fr.fn.get('fty', '').rstrip().endswith('const'):
            # `const bool lhsValid = valid();` in a const member function: no tracked object changes, the flag still says what it said
            d = tu.nodes.get(e.get('referencedDecl', {}).get('id'))
            qt = (d or {}).get('type', {}).get('qualType', '')
            if d is not None and d.get('kind') == 'VarDecl' and qt.replace(' ', '') == 'constbool' and tu.kids(d):
                return self.eval_bool(tu.kids(d)[-1], st, fr, depth + 1)
        if k in ('CXXMemberCallExpr', 'CXXOperatorCallExpr'):
            vals = self.call_value(e, st, fr)
            if vals and all(isinstance(v, bool) for v in vals) and len(set(vals)) == 1:
                return vals[0]
        return None

    def aval(self, e, st, fr):
        ct = self.tu.sd(self.tu.strip(e)).get('ct', '') if e is not None else ''
        if ct.endswith('*') or 'unique_ptr' in ct or 'shared_ptr' in ct:
            return self.holder_value(e, st, fr)
        return self.eval_bool(e, st, fr)

    def on_init(self, e, st, fr, depth=0):
        tu = self.tu
        me = fr.env.get('this')
        if me is None or e[3] != self.holder:
            return [st]
        init = tu.node(e[1])
        v = self.holder_value(init, st, fr)
        d = thaw(st)
        if v is None:
            return [freeze(dict(d, **{me: 'V'})), freeze(dict(d, **{me: 'N'}))]
        d[me] = v
        return [freeze(d)]

    def holder_value(self, e, st, fr):
        """'V'/'N'/None for an expression that initialises / is assigned to the holder"""
        tu = self.tu
        if e is None:
            return 'N'
        e0 = tu.strip(e, casts=True)
        k = e0.get('kind')
        if k == 'CXXNewExpr':
            return 'V'
        if self.is_null(e0):
            return 'N'
        if k in ('CXXConstructExpr', 'CXXTemporaryObjectExpr'):
            ks = tu.kids(e0)
            if not ks:
                return 'N'
            if len(ks) == 1:
                return self.holder_value(ks[0], st, fr)
            return None
        if k == 'CXXDefaultInitExpr':
            return 'N'
        if k == 'ConditionalOperator':
            ks = tu.kids(e0)
            c = self.eval_bool(ks[0], st, fr)
            if c is True:
                return self.holder_value(ks[1], st, fr)
            if c is False:
                return self.holder_value(ks[2], st, fr)
            return None
        if k in ('CXXMemberCallExpr',):
            sd, obj, args = tu.call_parts(e0)
            if sd.get('q', '').endswith('::clone'):
                return 'V'
            if sd.get('rec') == ANY:
                vals = self.call_value(e0, st, fr)
                if vals and all(v in ('V', 'N') for v in vals) and len(set(vals)) == 1:
                    return vals[0]
                return None
        if k == 'CallExpr':
            sd, obj, args = tu.call_parts(e0)
            if sd.get('q') in ('std::move', 'std::forward') and args:
                o = self.holder_obj(args[0], fr)
                if o is not None:
                    return thaw(st).get(o)
                return self.holder_value(args[0], st, fr)
        o = self.holder_obj(e0, fr)
        if o is not None:
            return thaw(st).get(o)
        return None

    def on_node(self, n, st, fr):
        tu = self.tu
        k = n.get('kind')
        if k == 'DeclStmt':
            vds = [x for x in tu.kids(n) if x.get('kind') == 'VarDecl']
            if vds and all(self.is_holder_local(x) for x in vds):
                sts = [st]
                for x in vds:
                    init = tu.kids(x)[-1] if tu.kids(x) else None
                    nxt = []
                    for s_ in sts:
                        v = self.holder_value(init, s_, fr) if init is not None else 'N'
                        d = thaw(s_)
                        for vv in ((v,) if v is not None else ('V', 'N')):
                            nxt.append(freeze(dict(d, **{'%' + x.get('name', '?'): vv})))
                    sts = nxt
                return sts
        if k == 'MemberExpr' and n.get('name') == self.holder:
            d = thaw(st)
            if d.get('@rhs') == 'DD' and self.holder_obj(n, fr) == getattr(self, 'rhs_name', None):
                self.report('source-read-after-release', 'the source of the copy assignment is read after the target released the payload it '
                            'owned; the source is a reference that may live inside that payload (`node = node.get<std::vector<Any>>()[1]`), '
                            'so it is read - and cloned - after its lifetime ended; cloning first and releasing afterwards '
                            '(copy, then move/swap in) has no such window', n, fr, st)
            return None
        if k == 'CXXOperatorCallExpr':
            sd, obj, args = tu.call_parts(n)
            name = sd.get('q', '').split('::')[-1]
            if obj is not None:
                o = self.holder_obj(obj, fr)
                if o is not None:
                    if name in ('operator->', 'operator*'):
                        v = thaw(st).get(o)
                        if v != 'V':
                            self.report('null-deref', 'holder pointer of `%s` is dereferenced on a path where `%s` may be empty '
                                        '(no validity test dominates the access)' % (o, o), n, fr, st)
                        return [st]
                    if name == 'operator=' and args:
                        v = self.holder_value(args[0], st, fr)
                        d = thaw(st)
                        self._old_payload_destroyed(d, o)
                        if v is None:
                            return [freeze(dict(d, **{o: 'V'})), freeze(dict(d, **{o: 'N'}))]
                        d[o] = v
                        return [freeze(d)]
            return None
        if k == 'CXXMemberCallExpr':
            sd, obj, args = tu.call_parts(n)
            name = sd.get('q', '').split('::')[-1]
            if sd.get('virt') and sd.get('rec', '').startswith(ANY + '::'):
                # a call of a holder virtual: remember which pointer arguments may be null here
                for idx, a in enumerate(args):
                    y = self.ptr_obj(a, fr)
                    if y is not None and thaw(st).get(y) != 'V':
                        self.nullable_calls.setdefault((sd.get('q'), idx), (n, fr.fn, y))
            if obj is not None and tu.strip(obj, casts=True).get('kind') == 'DeclRefExpr' and self.holder_obj(obj, fr) is None:
                o2 = self.ptr_obj(obj, fr)          # call through a local alias of the raw holder pointer
                if o2 is not None and thaw(st).get(o2) != 'V':
                    self.report('null-deref', 'holder pointer of `%s` (held in local `%s`) is dereferenced on a path where `%s` may be empty '
                                '(no validity test dominates the access)' % (o2, tu.show(obj), o2), n, fr, st)
            if obj is not None:
                o = self.holder_obj(obj, fr)
                if o is not None and name == 'swap' and len(args) == 1:
                    other = self.holder_obj(args[0], fr)
                    d = thaw(st)
                    if other is not None and other in d and o in d:
                        d[o], d[other] = d[other], d[o]
                        return [freeze(d)]
                if o is not None and name in ('reset', 'release'):
                    d = thaw(st)
                    if name == 'reset':
                        self._old_payload_destroyed(d, o)
                    args = [a for a in args if a.get('kind') != 'CXXDefaultArgExpr']
                    if name == 'reset' and args:
                        v = self.holder_value(args[0], st, fr)
                        if v is None:
                            return [freeze(dict(d, **{o: 'V'})), freeze(dict(d, **{o: 'N'}))]
                        d[o] = v
                    else:
                        d[o] = 'N'
                    return [freeze(d)]
        return None


def check_any(ctx, tu):
    R3, R4, R5 = 'R-C09-3', 'R-C09-4', 'R-C09-5'
    ctx.describe(R3, 'every dereference of the Any holder pointer is reached only on paths where a validity test succeeded')
    ctx.describe(R4, 'Any copy construction clones a valid source (never shares the holder); assignment installs a fresh holder')
    ctx.describe(R5, 'Any::get<T>: the typed access is dominated by the exact-type test; every other path throws std::runtime_error')
    rec = None
    for r in tu.records.values():
        if r['q'] == ANY:
            rec = r
    if rec is None:
        ctx.broken('R-C09-3: record %s not found' % ANY)
        return
    holders = [f for f in rec['fields'] if 'unique_ptr' in f['ct'] or 'shared_ptr' in f['ct'] or f['ct'].endswith('*')]
    if len(holders) > 1:
        # several pointer members (e.g. a cached type_info): the holder is the one whose pointee is a class nested in Any
        nested = [f for f in holders if (ANY + '::') in f['ct']]
        if len(nested) == 1:
            holders = nested
    if len(holders) != 1:
        ctx.broken('R-C09-3: cannot identify the holder member of %s' % ANY)
        return
    holder = holders[0]['name']
    it = AnyInterp(tu, holder, holders[0]['ct'], holders[0].get('type', ''))
    n3 = 0
    for f in tu.functions.values():
        if f['dep'] or f.get('rec') != ANY or tu.cfg(f) is None:
            continue
        if f.get('access') in ('private', 'protected'):
            # a non-public helper is analysed inlined into (and under the preconditions of) the public members that call it
            ctx.ok(R3, '%s %s' % (f['q'].replace('rkcommon::utility::', ''), f['fty']), 'non-public helper: analysed inlined into its public callers',
                   tu.fn_loc(f), nontrivial=False)
            continue
        env = {'this': 'this'}
        objs = {'this': ['U'] if f.get('ctor') else ['V', 'N']}
        for p in f['params']:
            t = p['ct'].replace('const ', '').replace('&', '').strip()
            if t == ANY:
                nm = p['name'] or 'arg'
                env[p['id']] = nm
                objs[nm] = ['V', 'N']
        it.rhs_name = None
        if f['q'].endswith('::operator=') and len(f['params']) == 1 and f['params'][0]['id'] in env \
                and f['params'][0]['ct'].rstrip().endswith('&') and not f['params'][0]['ct'].rstrip().endswith('&&'):
            # copy assignment: the argument may refer to an Any inside the payload that *this owns
            objs['@rhs'] = ['AA']
            it.rhs_name = env[f['params'][0]['id']]
        inits = [()]
        for nm in sorted(objs):
            inits = [i + ((nm, v),) for i in inits for v in objs[nm]]
        inits = [freeze(dict(i)) for i in inits]
        inst = '%s %s' % (f['q'].replace('rkcommon::utility::', ''), f['fty'])
        pname = pattern_name(tu, f)
        file = tu.fn_file(f)
        before = len(it.undecided)
        results = it.analyse_entry(f, env, inits)
        for u in it.undecided[before:]:
            ctx.undecided(R3, inst, u, tu.fn_loc(f))
        for st, outs, found in results:
            n3 += 1
            d0 = {k_: v_ for k_, v_ in thaw(st).items() if not k_.startswith('@')}
            label = '%s [%s]' % (inst, ', '.join('%s=%s' % kv for kv in sorted(d0.items())))
            if found:
                for kind, detail, nid, chain, fst, infn in found:
                    path = list(chain) + ['at %s: %s' % (tu.loc(nid), tu.show(tu.node(nid)))]
                    inner = tu.functions.get(infn, f)
                    ctx.violation(R3, label, '%s (entry state %s)' % (detail, d0), tu.loc(nid),
                                  key='%s|%s|%s|%s' % (R3, tu.fn_file(inner), pattern_name(tu, inner), kind), path=path)
            else:
                ctx.ok(R3, label, 'exits: %s' % sorted({tuple(sorted((k_, v_) for k_, v_ in thaw(s2).items() if not k_.startswith('@')))
                                                        for s2, _ in outs}), tu.fn_loc(f))
            # R-C09-4: copy constructor / copy assignment results
            if f.get('ctor') == 'copy' or f.get('assign') == 'copy':
                src = [nm for nm in d0 if nm != 'this']
                if src:
                    sv = d0[src[0]]
                    for s2, _ in outs:
                        tv = thaw(s2).get('this')
                        if tv != sv:
                            ctx.violation(R4, label, 'after copying, validity of *this (%s) differs from the source (%s)' % (tv, sv),
                                          tu.fn_loc(f), key='%s|%s|%s|validity' % (R4, file, pname))
                        else:
                            ctx.ok(R4, label, 'this=%s mirrors source=%s' % (tv, sv), tu.fn_loc(f))
    ctx.floor(R3, n3, 30, 'Any members x entry states on the pinned tree: 50+')
    # R-C09-4 structural part: the copy constructor's holder initialiser must be clone() of the source's holder
    n4 = 0
    for f in tu.functions.values():
        is_copy_assign = f.get('rec') == ANY and f['q'].endswith('::operator=') and len(f['params']) == 1 and \
            f['params'][0]['ct'].replace(' ', '') in ('const' + ANY + '&', ANY + 'const&')
        if f.get('rec') == ANY and (f.get('ctor') == 'copy' or is_copy_assign) and tu.cfg(f) is not None:
            g = tu.cfg(f)
            clones = shares = 0
            stmts = list(g.stmts())
            seen_fn = {f['id']}
            work = [f]
            while work:      # follow calls to other members of Any (helpers such as cloneValue())
                cur = work.pop()
                for b, i, n in tu.cfg(cur).stmts():
                    if n.get('kind') in ('CXXMemberCallExpr', 'CXXConstructExpr', 'CXXTemporaryObjectExpr') and tu.sd(n).get('rec') == ANY:
                        cf = tu.callee_fn(n)
                        if cf is not None and cf['id'] not in seen_fn and tu.cfg(cf) is not None:
                            seen_fn.add(cf['id'])
                            work.append(cf)
                            stmts += list(tu.cfg(cf).stmts())
            for b, i, n in stmts:
                if n.get('kind') == 'CXXMemberCallExpr' and tu.sd(n).get('q', '').endswith('handle_base::clone'):
                    clones += 1
                if n.get('kind') == 'CXXMemberCallExpr' and tu.sd(n).get('q', '').split('::')[-1] in ('get', 'release'):
                    par = tu.par(n)
                    # holder.get() used as the initialiser (sharing) rather than in a comparison
                    hops = 0
                    while par is not None and par.get('kind') in ('ImplicitCastExpr', 'ParenExpr') and hops < 4:
                        par = tu.par(par)
                        hops += 1
                    if par is not None and par.get('kind') in ('CXXConstructExpr', 'ConditionalOperator'):
                        shares += 1
            n4 += 1
            inst = 'Any::operator=(const Any&)' if is_copy_assign else 'Any::Any(const Any&)'
            if clones < 1 or shares:
                ctx.violation(R4, inst, '%s does not obtain its holder from clone() of the source '
                              '(clone calls: %d, raw pointer hand-overs: %d): the copies share one holder, so a write through a reference '
                              'obtained from one of them (get<T>()) is seen by the other' % (
                                  'copy assignment' if is_copy_assign else 'copy constructor', clones, shares),
                              tu.fn_loc(f), key='%s|%s|%s|no-clone' % (R4, tu.fn_file(f), inst))
            else:
                ctx.ok(R4, inst, 'holder initialised from source->clone()', tu.fn_loc(f))
    # every handle<T>::clone returns a new handle<T> built from its value
    for f in tu.functions.values():
        if f['q'].endswith('::clone') and f.get('rec') == ANY + '::handle' and tu.cfg(f) is not None:
            n4 += 1
            news = [n for b, i, n in tu.cfg(f).stmts() if n.get('kind') == 'CXXNewExpr']
            inst = f['q'].replace('rkcommon::utility::', '')
            good = False
            for nn in news:
                if tu.sd(nn).get('aty', '') == tu.records.get(f['recid'], {}).get('type'):
                    good = True
            if good:
                ctx.ok(R4, inst, 'returns new %s(value)' % tu.sd(news[0]).get('aty'), tu.fn_loc(f))
            else:
                ctx.violation(R4, inst, 'clone() does not allocate a fresh holder of its own type', tu.fn_loc(f),
                              key='%s|%s|Any::handle::clone|no-new' % (R4, tu.fn_file(f)))
    ctx.floor(R4, n4, 3, 'copy constructor + clone() of the instantiated holders')
    check_any_get(ctx, tu, R5)
    check_any_nullable_args(ctx, tu, it)


class PtrInterp(ObjInterp):
    """raw pointer parameters / locals of the holder classes: 'N' (null) / 'V' (non-null)"""

    def is_own_fn(self, f):
        return f.get('rec', '').startswith(ANY)

    def looks_own(self, sd):
        return sd.get('rec', '').startswith(ANY)

    def is_null(self, e):
        e = self.tu.strip(e, casts=True)
        return e is not None and (e.get('kind') in ('CXXNullPtrLiteralExpr', 'GNUNullExpr') or
                                  (e.get('kind') == 'IntegerLiteral' and e.get('value') == '0'))

    def eval_bool(self, e, st, fr, depth=0):
        tu = self.tu
        e = tu.strip(e, casts=True)
        if e is None or depth > 10:
            return None
        k = e.get('kind')
        if k == 'UnaryOperator' and e.get('opcode') == '!':
            v = self.eval_bool(tu.kids(e)[0], st, fr, depth + 1)
            return None if v is None else (not v)
        if k == 'BinaryOperator' and e.get('opcode') in ('==', '!='):
            a, b = tu.kids(e)
            for x, y in ((a, b), (b, a)):
                o = self.obj_of(x, fr)
                if o is not None and self.is_null(y):
                    v = thaw(st).get(o)
                    if v in ('N', 'V'):
                        return (v == 'N') if e['opcode'] == '==' else (v == 'V')
            return None
        o = self.obj_of(e, fr)
        if o is not None:
            v = thaw(st).get(o)
            return True if v == 'V' else False if v == 'N' else None
        return None

    def aval(self, e, st, fr):
        return self.eval_bool(e, st, fr)

    def on_node(self, n, st, fr):
        tu = self.tu
        k = n.get('kind')
        if k == 'DeclStmt':
            outs = [st]
            for v in tu.kids(n):
                if v.get('kind') != 'VarDecl' or not v.get('type', {}).get('qualType', '').rstrip().endswith('*'):
                    continue
                ks = tu.kids(v)
                init = tu.strip(ks[-1]) if ks else None
                name = '%s@%s' % (v.get('name', 'local'), fr.fn['q'].split('::')[-1])
                fr.env[v['id']] = name
                src = None
                dyn = False
                x = init
                while x is not None and x.get('kind') in ('CXXDynamicCastExpr', 'CXXStaticCastExpr', 'CStyleCastExpr',
                                                           'CXXReinterpretCastExpr', 'ImplicitCastExpr', 'ParenExpr'):
                    dyn = dyn or x.get('kind') == 'CXXDynamicCastExpr'
                    x = tu.kids(x)[-1] if tu.kids(x) else None
                if x is not None:
                    src = self.obj_of(x, fr)
                nxt = []
                for s0 in outs:
                    d = thaw(s0)
                    sv = d.get(src) if src is not None else None
                    if sv == 'N':
                        vals = ['N']
                    elif sv == 'V' and not dyn:
                        vals = ['V']
                    elif init is not None and init.get('kind') == 'CXXNewExpr':
                        vals = ['V']
                    else:
                        vals = ['N', 'V']      # unknown / failed dynamic_cast: both, so that tests are decisive
                    for val in vals:
                        nxt.append(freeze(dict(d, **{name: val})))
                outs = nxt
            return outs
        if k == 'MemberExpr' and n.get('isArrow'):
            ks = tu.kids(n)
            o = self.obj_of(ks[0], fr) if ks else None
            if o is not None and thaw(st).get(o) == 'N':
                self.report('null-arg-deref', 'pointer `%s` is dereferenced (`->%s`) on a path where it is null'
                            % (o.split('@')[0], n.get('name')), n, fr, st)
            return [st]
        if k == 'UnaryOperator' and n.get('opcode') == '*':
            o = self.obj_of(tu.kids(n)[0], fr)
            if o is not None and thaw(st).get(o) == 'N':
                self.report('null-arg-deref', 'pointer `%s` is dereferenced (`*`) on a path where it is null' % o.split('@')[0], n, fr, st)
            return [st]
        return None


def check_any_nullable_args(ctx, tu, it):
    """R-C09-6: when a member of Any hands a possibly-null holder pointer to a holder virtual, no override of that
    virtual may dereference the parameter on a path where it is null (two cooperating sites)."""
    R6 = 'R-C09-6'
    ctx.describe(R6, 'a holder virtual that receives a possibly-null holder pointer from a member of Any never dereferences it '
                     'on a path where it is null (every override, callees inlined)')
    n = 0
    for (vq, idx), (call, infn, who) in sorted(it.nullable_calls.items(), key=lambda kv: kv[0]):
        overrides = [f for f in tu.functions.values() if vq in f.get('overrides', []) and tu.cfg(f) is not None]
        if not overrides:
            ctx.undecided(R6, vq, 'possibly-null argument %d passed at %s but no override of %s has a body in the facts' % (idx, tu.loc(call), vq))
            continue
        for f in sorted(overrides, key=lambda x: x['q'] + str(x.get('rect'))):
            if idx >= len(f['params']):
                continue
            n += 1
            pi = PtrInterp(tu)
            prm = f['params'][idx]
            nm = prm['name'] or 'arg%d' % idx
            res = pi.analyse_entry(f, {prm['id']: nm}, [freeze({nm: 'N'})])
            inst = '%s (%s) with `%s` == null, as passed by %s at %s' % (f['q'].replace('rkcommon::utility::', ''), f.get('rect', '').replace('rkcommon::utility::', ''),
                                                                        nm, infn['q'].replace('rkcommon::utility::', ''), tu.loc(call))
            for u in pi.undecided:
                ctx.undecided(R6, inst, u, tu.fn_loc(f))
            bad = False
            for st0, outs, found in res:
                for kind, detail, nid, chain, fst, inner_id in found:
                    bad = True
                    inner = tu.functions.get(inner_id, f)
                    ctx.violation(R6, inst, '%s: `%s` of an empty Any is passed by %s and reaches this dereference' % (
                                  detail, who, infn['q'].replace('rkcommon::utility::', '')), tu.loc(nid),
                                  key='%s|%s|%s|%s' % (R6, tu.fn_file(inner), pattern_name(tu, inner), kind),
                                  path=['%s passes %s.%s.get() which is null when `%s` is empty (%s)' % (infn['q'], who, it.holder, who, tu.loc(call))]
                                  + list(chain) + ['at %s: %s' % (tu.loc(nid), tu.show(tu.node(nid)))])
            if not bad:
                ctx.ok(R6, inst, 'null argument is tolerated on every path', tu.fn_loc(f))
    if not it.nullable_calls:
        ctx.ok(R6, 'Any members', 'no member of Any passes a possibly-null holder pointer to a holder virtual (every such call is reached only '
               'with both wrappers engaged; R-C09-3 analysed the callers)', 'rkcommon/utility/Any.h', nontrivial=False)
    else:
        ctx.floor(R6, n, 2, 'Any::operator== passes rhs\'s possibly-null holder to isSame of every instantiated holder (3 on the pinned tree)')


def check_any_get(ctx, tu, R5):
    """R-C09-5: in get<T>() the static_cast/deref is dominated by the true edge of is<T>(); all other exits throw
    std::runtime_error; is<T>() = valid() && strcmp(typeid(T).name(), holder->valueTypeID().name()) == 0."""
    n = 0
    # typed-payload accessors: Any helpers (other than get) that return the stored object through handle_base::data(); a call of one is
    # the same event as the access itself and needs the same guard at its call site
    accessors = set()
    for f2 in tu.functions.values():
        if f2.get('rec') == ANY and not f2['dep'] and tu.cfg(f2) is not None and f2['q'].split('::')[-1] != 'get' and \
                any(nn.get('kind') == 'CXXMemberCallExpr' and tu.sd(nn).get('q', '').endswith('handle_base::data') for b, i, nn in tu.cfg(f2).stmts()):
            accessors.add(f2['id'])

    def is_access(nn):
        if nn.get('kind') != 'CXXMemberCallExpr':
            return False
        if tu.sd(nn).get('q', '').endswith('handle_base::data'):
            return True
        cf_ = tu.callee_fn(nn)
        return cf_ is not None and cf_['id'] in accessors
    for f in tu.functions.values():
        if f.get('rec') != ANY or f['dep'] or tu.cfg(f) is None:
            continue
        name = f['q'].split('::')[-1]
        if name == 'get':
            n += 1
            g = tu.cfg(f)
            inst = '%s %s %s' % (f['q'].replace('rkcommon::utility::', ''), f['fty'], f.get('targs'))
            key = '%s|%s|Any::get|' % (R5, tu.fn_file(f))
            problems = []
            undecided = []
            stmts = list(g.stmts())
            accesses = [nn for b, i, nn in stmts if is_access(nn)]
            fwd = [nn for b, i, nn in stmts if nn.get('kind') == 'CXXMemberCallExpr' and tu.sd(nn).get('q') == ANY + '::get'
                   and (tu.callee_fn(nn) or {}).get('targs') == f.get('targs') and (tu.callee_fn(nn) or {}).get('id') != f['id']]
            if not accesses and fwd:
                ctx.ok(R5, inst, 'forwards to the other get<T>() overload for the same T (checked there)', tu.fn_loc(f))
                continue

            def only_throws_runtime_error(cf, depth=0):
                """True if every path of cf ends in `throw std::runtime_error` (directly or through such helpers), None if unknown"""
                cg = tu.cfg(cf)
                if cg is None or depth > 4:
                    return None
                reach = cg.reachable()
                for b in cg.blocks.values():
                    if b.id not in reach or cg.exit not in [x for x in b.succ if x is not None]:
                        continue
                    ns = [tu.node(e[1]) for e in b.el if e[0] == 'S' and tu.node(e[1])]
                    thr = [x for x in ns if x.get('kind') == 'CXXThrowExpr']
                    if thr:
                        if any(tu.sd(t).get('tty') not in (None, 'std::runtime_error') for t in thr):
                            return False
                        continue
                    calls = [x for x in ns if x.get('kind') in ('CallExpr', 'CXXMemberCallExpr') and b.noret]
                    sub = [only_throws_runtime_error(tu.callee_fn(c), depth + 1) for c in calls if tu.callee_fn(c) is not None]
                    if not sub or not all(v is True for v in sub):
                        return False if any(v is False for v in sub) else None
                return True

            def refine(blk, si, st):
                if blk.cond is None or len(blk.succ) != 2:
                    return [st]
                c = tu.strip(tu.node(blk.cond), casts=True)
                truth = (si == 0)
                while c is not None and c.get('kind') == 'UnaryOperator' and c.get('opcode') == '!':
                    truth = not truth
                    c = tu.strip(tu.kids(c)[0], casts=True)
                if c is not None and c.get('kind') == 'CXXMemberCallExpr' and tu.sd(c).get('q') == ANY + '::is':
                    cf = tu.callee_fn(c)
                    if cf is None or cf.get('targs') != f.get('targs'):
                        problems.append('the type test is made for a different type than the one returned')
                        return [st]
                    return ['T' if truth else 'F']
                return [st]

            def transfer(blk, i, el, st):
                if el[0] != 'S':
                    return [st]
                x = tu.node(el[1])
                if x is None:
                    return [st]
                if is_access(x) and st != 'T':
                    problems.append('the stored object is accessed as T at %s on a path where is<T>() was not tested to be true' % tu.loc(x))
                if x.get('kind') == 'CXXThrowExpr':
                    if tu.sd(x).get('tty') not in (None, 'std::runtime_error'):
                        problems.append('throws %s instead of std::runtime_error' % tu.sd(x).get('tty'))
                    return []
                if x.get('kind') in ('CallExpr', 'CXXMemberCallExpr') and blk.noret and i == max(k for k, e in enumerate(blk.el) if e[0] == 'S'):
                    cf = tu.callee_fn(x)
                    v = only_throws_runtime_error(cf) if cf is not None else None
                    if v is True:
                        return []
                    if v is False:
                        problems.append('the non-returning helper %s called at %s does not always throw std::runtime_error' % (tu.sd(x).get('q'), tu.loc(x)))
                        return []
                    undecided.append('non-returning call %s at %s has no body to analyse' % (tu.sd(x).get('q'), tu.loc(x)))
                    return []
                return [st]

            res = g.explore(['?'], transfer, refine)
            for (st, via) in res.exits:
                blk = g.blocks[via]
                kinds = [tu.node(e[1]).get('kind') for e in blk.el if e[0] == 'S' and tu.node(e[1])]
                if 'ReturnStmt' not in kinds:
                    problems.append('a path leaves get<T>() without returning the value or throwing')
            if not accesses:
                undecided.append('no typed access to the holder found in get<T>()')
            if problems:
                for pmsg in sorted(set(problems)):
                    ctx.violation(R5, inst, pmsg, tu.fn_loc(f), key=key + re.sub(r' at \S+', '', pmsg))
            elif undecided:
                for u in sorted(set(undecided)):
                    ctx.undecided(R5, inst, u, tu.fn_loc(f))
            else:
                ctx.ok(R5, inst, 'typed access only on paths where is<T>() is true; every other path throws std::runtime_error', tu.fn_loc(f))
        elif name == 'is':
            n += 1
            inst = '%s %s' % (f['q'].replace('rkcommon::utility::', ''), f.get('targs'))
            # statements of is<T>() and of the Any helpers it delegates to (the queried type may travel as a type_info argument)
            stmts = []
            seen = {f['id']}
            work = [f]
            while work:
                cur = work.pop()
                gg = tu.cfg(cur)
                if gg is None:
                    continue
                for b, i2, nn in gg.stmts():
                    stmts.append(nn)
                    if nn.get('kind') in ('CXXMemberCallExpr', 'CallExpr'):
                        cf = tu.callee_fn(nn)
                        if cf is not None and (cf.get('rec') == ANY or (cf.get('rec') or '').startswith(ANY + '::')) and \
                                cf['id'] not in seen and len(seen) < 6 and cf['q'].split('::')[-1] not in ('valid',):
                            seen.add(cf['id'])
                            work.append(cf)
            calls = [tu.sd(nn).get('q', '') for nn in stmts if nn.get('kind') in ('CXXMemberCallExpr', 'CallExpr', 'CXXOperatorCallExpr')]
            has_valid = ANY + '::valid' in calls or any(
                nn.get('kind') == 'MemberExpr' and nn.get('name') in [fl['name'] for fl in tu.records.get(f['recid'], {}).get('fields', [])]
                and (tu.par(nn) or {}).get('kind') in ('ImplicitCastExpr', 'CXXMemberCallExpr', 'UnaryOperator') for nn in stmts)
            has_cmp = any(c in ('strcmp', 'std::type_info::operator==', 'std::type_info::hash_code') or c.endswith('type_info::operator==') for c in calls)
            has_typeid = any(nn.get('kind') == 'CXXTypeidExpr' for nn in stmts)
            has_holder_type = any(c.endswith('handle_base::valueTypeID') for c in calls)
            ti_fields = [fl['name'] for fl in tu.records.get(f['recid'], {}).get('fields', []) if 'type_info' in fl['ct']]
            cached = [nn.get('name') for nn in stmts if nn.get('kind') == 'MemberExpr' and nn.get('name') in ti_fields]
            if cached and not has_holder_type:
                has_holder_type = True       # compared with a cached std::type_info member; R-C09-10 decides that it is kept current
            wrong = None
            # a type recorded in the holder itself: every holder constructor must record typeid of its own payload type
            hfields = {}
            for fid in seen:
                g2 = tu.functions[fid]
                if (g2.get('rec') or '').startswith(ANY + '::'):
                    for fl in tu.records.get(g2.get('recid'), {}).get('fields', []):
                        if 'type_info' in fl['ct']:
                            hfields[fl['name']] = g2.get('recid')
            hcached = [nn.get('name') for nn in stmts if nn.get('kind') == 'MemberExpr' and nn.get('name') in hfields]
            if hcached and not has_holder_type:
                recorded = _holder_records_own_type(tu)
                if recorded is True:
                    has_holder_type = True
                elif recorded is not None:
                    wrong = recorded
            for nn in stmts:
                # a bounded / prefix comparison of the two names: different types whose (mangled) names agree in the compared part are "the same"
                if nn.get('kind') == 'CallExpr' and tu.sd(nn).get('q', '').split('::')[-1] in ('strncmp', 'memcmp', 'strncasecmp', 'strcasecmp') \
                        and any(x.get('kind') == 'CXXTypeidExpr' or (x.get('kind') == 'CXXMemberCallExpr' and tu.sd(x).get('q', '').endswith('type_info::name'))
                                for x in tu.walk(nn)):
                    qn = tu.sd(nn).get('q', '').split('::')[-1]
                    wrong = ('the type names are compared with %s (%s): two different types whose names agree in the compared part - e.g. nested '
                             'containers or templates that differ only in a late argument - are taken for the same type, and get<T>() hands out a '
                             'reference of the wrong type' % (qn, 'without case' if 'case' in qn else 'only a bounded prefix `%s`' % tu.show(tu.kids(nn)[-1])[:40]))
                if nn.get('kind') == 'BinaryOperator' and nn.get('opcode') in ('==', '!=', '<', '>', '<=', '>='):
                    ks = tu.kids(nn)
                    a, b2 = tu.strip(ks[0], casts=True), tu.strip(ks[1], casts=True)
                    if a is not None and a.get('kind') == 'CallExpr' and tu.sd(a).get('q') == 'strcmp':
                        if nn.get('opcode') != '==' or tu.sd(b2).get('cv') != '0':
                            wrong = 'the result of strcmp is tested with `%s %s`, not `== 0`' % (nn.get('opcode'), tu.show(b2)[:10])
                    # identity of type_info objects instead of equality of the types
                    def is_ti_addr(x):
                        return x is not None and x.get('kind') == 'UnaryOperator' and x.get('opcode') == '&' and \
                            'type_info' in (tu.sd(tu.strip(tu.kids(x)[0], casts=True) or {}).get('ct', '') +
                                            (tu.strip(tu.kids(x)[0], casts=True) or {}).get('type', {}).get('qualType', ''))
                    if nn.get('opcode') in ('==', '!=') and is_ti_addr(a) and is_ti_addr(b2):
                        wrong = ('the addresses of two std::type_info objects are compared: the same type can have several type_info objects '
                                 '(one per shared object), so equal types compare unequal')
            if wrong:
                ctx.violation(R5, inst, 'is<T>() does not test equality of typeid(T) with the stored type: %s' % wrong, tu.fn_loc(f),
                              key='%s|%s|Any::is|shape' % (R5, tu.fn_file(f)))
            elif has_valid and has_cmp and has_typeid and has_holder_type:
                ctx.ok(R5, inst, 'valid() && exact comparison of typeid(T) with the holder type%s' % (
                    ' (through %d helper(s))' % (len(seen) - 1) if len(seen) > 1 else ''), tu.fn_loc(f))
            else:
                ctx.undecided(R5, inst, 'is<T>() is not recognised as `valid() && typeid(T) equals the stored type` (valid:%s compare:%s typeid:%s '
                              'holder:%s)' % (has_valid, has_cmp, has_typeid, has_holder_type), tu.fn_loc(f))
    ctx.floor(R5, n, 4, 'get<T>/is<T> instantiations in drivers/wrappers.cpp')


def _holder_records_own_type(tu):
    """Any::handle<T> constructors that hand a std::type_info to their base: True when every one passes typeid(T) of its own payload
    type T, a text when one passes the typeid of another type, None when the shape is not recognised"""
    n = 0
    for f in tu.functions.values():
        if f['dep'] or not f.get('ctor') or not (f.get('rec') or '').startswith(ANY + '::handle') or (f.get('rec') or '').endswith('handle_base'):
            continue
        rec = tu.records.get(f.get('recid'), {})
        if not rec.get('targs'):
            continue
        fd = tu.nodes.get(f['id'])
        if fd is None or tu.body(f) is None:
            continue
        if f['fty'].count(rec.get('name', '\0')) and '&' in f['fty'] and len(f.get('params', [])) == 1 and \
                'handle<' in f['params'][0].get('ct', f['params'][0].get('type', '')):
            continue        # copy / move constructor of the holder
        tids = [x for x in tu.walk(fd) if x.get('kind') == 'CXXTypeidExpr']
        if not tids:
            return None
        payload = rec['targs'][0]['t']
        for t in tids:
            arg = (t.get('typeArg') or {}).get('qualType') or (t.get('typeArg') or {}).get('desugaredQualType')
            if arg is None:
                ks = tu.kids(t)
                arg = ks[0].get('type', {}).get('qualType') if ks else None
            if arg is None:
                return None
            norm = lambda x: re.sub(r'\b(class|struct|const) ', '', x).replace(' ', '')
            if norm(arg) != norm(payload) and norm(arg) not in ('T', 'value_type'):
                return 'the holder for payload type %s records typeid(%s)' % (payload, arg)
        n += 1
    return True if n else None


# ============================================================================================
#  R-C09-7: the raw storage of an Optional is only ever used as the address of a payload
# ============================================================================================
BYTE_OPS = {'memcpy', 'memmove', 'memset', 'copy', 'copy_n', 'swap', 'swap_ranges', 'fill', 'fill_n', 'move', 'move_backward',
            'exchange', 'iter_swap', 'uninitialized_copy', 'uninitialized_copy_n', 'bcopy'}
ADDR_FNS = {'std::addressof', 'std::launder'}
ARRAY_ADDR = {'data', 'begin', 'cbegin', 'end', 'cend', 'operator[]', 'front', 'at'}


def check_storage_bytes(ctx, tu):
    """Every mention of the storage member in the members of Optional<T>, for payload types that are not trivially copyable, leads to
    a typed payload access (cast to T*), a placement-new address, or nothing.  Copying, swapping, assigning or filling the bytes
    relocates or destroys a payload without running its constructors/destructor."""
    R = 'R-C09-7'
    ctx.describe(R, 'Optional<T>, T not trivially copyable: the storage bytes are used only as a placement-new address or through a '
                    'cast to T*; they are never copied, swapped, assigned or filled as bytes')
    ff = opt_fields(tu)
    if ff is None:
        ctx.broken('%s: cannot identify the storage member of %s' % (R, OPT))
        return
    storage = ff[1]
    nontriv = {}
    for r in tu.records.values():
        if _opt_rec(r.get('tmpl')) and r.get('targs') and r['targs'][0].get('trivially_copyable') is False:
            nontriv[r['id']] = r['targs'][0]['t']
    n = 0
    # address accessors: members whose only use of the storage is to return its (untyped) address; their call sites are classified instead
    accessors = set()
    for f in tu.functions.values():
        if f['dep'] or not _opt_rec(f.get('rec')) or f.get('recid') not in nontriv or tu.body(f) is None:
            continue
        us = [x for x in tu.walk(tu.node(f['id']) or tu.body(f)) if x.get('kind') == 'MemberExpr' and x.get('name') == storage]
        if us and all(_classify_storage_use(tu, u, nontriv[f['recid']]) == ('und', 'untyped byte pointer returned') for u in us):
            accessors.add(f['id'])
    for f in sorted(tu.functions.values(), key=lambda x: (x['q'], x['fty'])):
        if f['dep'] or not _opt_rec(f.get('rec')) or f.get('recid') not in nontriv or tu.body(f) is None:
            continue
        payload = nontriv[f['recid']]
        inst = '%s %s' % (f['q'].replace('rkcommon::utility::', ''), f['fty'].replace('rkcommon::utility::', ''))
        key = '%s|rkcommon/utility/Optional.h|%s|' % (R, pattern_name(tu, f))
        roots = [tu.body(f)] + [tu.node(i) for i in f.get('inits', []) if tu.node(i)]
        uses = []
        fd = tu.node(f['id'])
        for root in ([fd] if fd is not None else roots):
            for x in tu.walk(root):
                if x.get('kind') == 'MemberExpr' and x.get('name') == storage:
                    uses.append(x)
                elif x.get('kind') == 'CXXMemberCallExpr' and (tu.sd(x).get('def') or tu.sd(x).get('d')) in accessors:
                    uses.append(x)
        for u in uses:
            n += 1
            dead = _statically_dead(tu, u)
            if dead:
                ctx.ok(R, '%s @%s' % (inst, tu.loc(u)), 'not reached for this payload type: %s' % dead, tu.loc(u), nontrivial=False)
                continue
            if f['id'] in accessors and u.get('kind') == 'MemberExpr':
                ctx.ok(R, '%s @%s' % (inst, tu.loc(u)), 'address accessor: returns the storage address, every call site is classified', tu.loc(u),
                       nontrivial=False)
                continue
            verdict, why = _classify_storage_use(tu, u, payload)
            if verdict == 'ok':
                ctx.ok(R, '%s @%s' % (inst, tu.loc(u)), why, tu.loc(u), nontrivial=False)
            elif verdict == 'bad':
                ctx.violation(R, inst, 'the storage bytes of an Optional<%s> are %s at %s: the payload is relocated / overwritten bytewise without '
                              'running its move constructor or destructor (a payload that owns or refers to its own address, e.g. a '
                              'small-string std::string, is left dangling; the old payload is never destroyed)' % (payload, why, tu.loc(u)),
                              tu.loc(u), key=key + 'bytewise')
            else:
                ctx.undecided(R, inst, 'use of the storage member not classified: %s' % why, tu.loc(u))
    ctx.floor(R, n, 12, 'mentions of the storage member in Optional<std::string>, Optional<std::vector<int>>, Optional<Over64> members')


def _statically_dead(tu, u):
    """reason if the node lies in a branch of an if / conditional whose condition is a compile-time constant of this instantiation
    (`if (std::is_trivially_copyable<T>::value)`) and the constant selects the other branch"""
    cur = u
    for _ in range(80):
        p = tu.par(cur)
        if p is None:
            return None
        if p.get('kind') in ('IfStmt', 'ConditionalOperator'):
            ks = tu.kids(p)
            parts = [x for x in ks if x.get('kind') not in ('DeclStmt',)] if p.get('kind') == 'IfStmt' else ks
            # IfStmt children: [init], [condvar], cond, then, [else]
            if p.get('kind') == 'IfStmt':
                skip = (1 if p.get('hasInit') else 0) + (1 if p.get('hasVar') else 0)
                parts = ks[skip:]
            if len(parts) >= 2 and cur is not parts[0]:
                cond = tu.strip(parts[0], casts=True)
                neg = False
                while cond is not None and cond.get('kind') == 'UnaryOperator' and cond.get('opcode') == '!':
                    neg = not neg
                    cond = tu.strip(tu.kids(cond)[0], casts=True)
                cv = tu.sd(cond).get('cv') if cond is not None and cond.get('kind') not in (
                    'CXXMemberCallExpr', 'CXXOperatorCallExpr', 'CallExpr') else None
                if cv is not None:
                    val = (cv != '0') != neg
                    in_then = cur is parts[1]
                    in_else = len(parts) > 2 and cur is parts[2]
                    if (in_then and not val) or (in_else and val):
                        return 'the enclosing condition `%s` is the constant %s here' % (tu.show(parts[0])[:80], 'true' if val else 'false')
        if p.get('kind') in ('FunctionDecl', 'CXXMethodDecl', 'CXXConstructorDecl', 'CXXDestructorDecl', 'LambdaExpr'):
            return None
        cur = p
    return None


def _classify_storage_use(tu, u, payload):
    cur = u
    base = lambda t: re.sub(r'\b(const|volatile)\b', '', t or '').replace('*', '').replace('&', '').replace(' ', '')
    for _ in range(40):
        p = tu.par(cur)
        if p is None:
            return 'ok', 'no consumer'
        k = p.get('kind')
        if k in ('CStyleCastExpr', 'CXXStaticCastExpr', 'CXXReinterpretCastExpr', 'CXXConstCastExpr', 'CXXFunctionalCastExpr'):
            ct = tu.sd(p).get('ct') or p.get('type', {}).get('qualType', '')
            if ('*' in ct or '&' in ct) and base(ct) == base(payload):
                return 'ok', 'typed payload access through a cast to %s' % ct
            cur = p
            continue
        if k in ('ImplicitCastExpr', 'ParenExpr', 'ExprWithCleanups', 'MaterializeTemporaryExpr', 'CXXBindTemporaryExpr', 'ConstantExpr'):
            cur = p
            continue
        if k == 'UnaryOperator' and p.get('opcode') == '&':
            cur = p
            continue
        if k == 'MemberExpr':            # storage.data / storage.swap ... : decided at the call
            cur = p
            continue
        if k == 'CXXNewExpr':
            if cur.get('id') in (tu.sd(p).get('pargs') or []):
                return 'ok', 'placement-new address'
            return 'und', 'operand of a new-expression'
        if k in ('CXXMemberCallExpr', 'CXXOperatorCallExpr', 'CallExpr'):
            sd, obj, args = tu.call_parts(p)
            name = sd.get('q', '').split('::')[-1]
            is_obj = obj is not None and (obj is cur or tu.strip(obj, casts=True) is tu.strip(cur, casts=True)) or (
                k == 'CXXMemberCallExpr' and tu.kids(p) and tu.kids(p)[0] is cur)
            if is_obj and name in ARRAY_ADDR:
                cur = p
                continue
            if sd.get('q') in ADDR_FNS:
                cur = p
                continue
            if name in BYTE_OPS or name == 'operator=':
                return 'bad', 'passed to %s' % sd.get('q', name)
            return 'und', 'passed to %s' % sd.get('q', name)
        if k in ('CXXConstructExpr', 'CXXTemporaryObjectExpr'):
            return 'bad', 'copied as a whole (%s)' % tu.sd(p).get('q', 'copy construction')
        if k == 'CXXCtorInitializer':
            return 'ok', 'member initialiser'
        if k == 'UnaryExprOrTypeTraitExpr':
            return 'ok', 'sizeof/alignof'
        if k == 'BinaryOperator' and p.get('opcode') == '=':
            return 'bad', 'assigned as bytes'
        if k == 'ReturnStmt':
            return 'und', 'untyped byte pointer returned'
        if k == 'VarDecl':
            return 'und', 'untyped byte pointer stored in a local'
        if k in ('CompoundStmt', 'IfStmt', 'ForStmt', 'WhileStmt'):
            return 'ok', 'value unused'
        return 'und', 'consumer %s' % k
    return 'und', 'too deep'


# ============================================================================================
#  R-C09-8: the type-name helper behind Any::toString() / the get<T>() mismatch message
# ============================================================================================
DEMANGLE_UNIT = 'rkcommon/utility/demangle.cpp'
MALLOC_FNS = ('malloc', 'calloc', 'realloc', 'std::malloc', 'std::calloc', 'std::realloc', 'strdup')


def check_demangle(ctx):
    R = 'R-C09-8'
    ctx.describe(R, 'Any::toString() and the message of a failed Any::get<T>() go through demangle(): the output buffer it hands to '
                    'abi::__cxa_demangle is null or comes from malloc (the ABI function realloc()s / frees that buffer when the name does not fit)')
    try:
        tu = ctx.front.parse(DEMANGLE_UNIT, 'TBB')
    except Exception as e:      # noqa
        ctx.broken('%s: cannot parse %s: %s' % (R, DEMANGLE_UNIT, str(e)[:200]))
        return
    n = 0
    for f in tu.functions.values():
        if not tu.fn_file(f).startswith('rkcommon/') or tu.body(f) is None:
            continue
        for c in tu.walk(tu.body(f)):
            if c.get('kind') != 'CallExpr' or not tu.sd(c).get('q', '').endswith('__cxa_demangle'):
                continue
            args = tu.call_parts(c)[2]
            if len(args) < 2:
                continue
            n += 1
            inst = '%s: %s' % (f['q'].replace('rkcommon::', ''), tu.show(c)[:70])
            key = '%s|%s|%s|demangle-buffer' % (R, tu.fn_file(f), f['q'].replace('rkcommon::', ''))
            a = tu.strip(args[1], casts=True)
            verdict, why = 'und', 'buffer argument `%s` not classified' % tu.show(args[1])[:60]
            if a is None or a.get('kind') in ('CXXNullPtrLiteralExpr', 'GNUNullExpr') or (a.get('kind') == 'IntegerLiteral' and a.get('value') == '0'):
                verdict, why = 'ok', 'null buffer: the ABI function allocates the result with malloc'
            elif a.get('kind') == 'DeclRefExpr':
                d = tu.node(tu.ref_decl(a))
                qt = (d or {}).get('type', {}).get('qualType', '')
                if d is not None and d.get('kind') == 'VarDecl' and '[' in qt:
                    verdict, why = 'bad', 'the array `%s` (%s)' % (d.get('name'), qt)
                elif d is not None and d.get('kind') == 'VarDecl' and qt.rstrip().endswith('*'):
                    srcs = [tu.kids(d)[-1]] if tu.kids(d) else []
                    for x in tu.walk(tu.body(f)):
                        if x.get('kind') == 'BinaryOperator' and x.get('opcode') == '=' and tu.ref_decl(tu.kids(x)[0]) == d['id']:
                            srcs.append(tu.kids(x)[1])
                    def from_malloc(e):
                        e = tu.strip(e, casts=True)
                        return e is not None and e.get('kind') == 'CallExpr' and tu.sd(e).get('q', '') in MALLOC_FNS
                    def is_null(e):
                        e = tu.strip(e, casts=True)
                        return e is not None and (e.get('kind') in ('CXXNullPtrLiteralExpr', 'GNUNullExpr') or
                                                  (e.get('kind') == 'IntegerLiteral' and e.get('value') == '0'))
                    if srcs and all(from_malloc(e) or is_null(e) for e in srcs):
                        verdict, why = 'ok', 'buffer `%s` comes from malloc' % d.get('name')
            elif a.get('kind') == 'UnaryOperator' and a.get('opcode') == '&':
                verdict, why = 'bad', 'the address `%s`' % tu.show(a)[:40]
            elif a.get('kind') == 'CXXMemberCallExpr' and tu.sd(a).get('q', '').split('::')[-1] in ('data', 'c_str', 'get'):
                verdict, why = 'bad', 'storage owned by another object (`%s`)' % tu.show(a)[:40]
            elif a.get('kind') == 'CXXNewExpr':
                verdict, why = 'bad', 'memory from operator new'
            if verdict == 'ok':
                ctx.ok(R, inst, why, tu.loc(c))
            elif verdict == 'bad':
                ctx.violation(R, inst, '%s is handed to abi::__cxa_demangle as its output buffer; that buffer must be null or malloc()ed, because the '
                              'function realloc()s it when the demangled name does not fit: for a payload whose type name is longer than the buffer '
                              '(nested containers, maps of strings) Any::toString() and the message of a failed get<T>() free / realloc memory '
                              'that malloc never returned and abort instead of printing / throwing' % why, tu.loc(c), key=key)
            else:
                ctx.undecided(R, inst, why, tu.loc(c))
    if n == 0:
        # e.g. typeid names used undemangled: nothing to check
        ctx.ok(R, DEMANGLE_UNIT, 'no call of abi::__cxa_demangle in the unit', DEMANGLE_UNIT, nontrivial=False)
    check_demangle_state(ctx, tu)


def check_demangle_state(ctx, tu):
    R = 'R-C09-12'
    ctx.describe(R, 'Any::toString() / a failed get<T>() may be called from several threads at once (the wrappers are value types): the '
                    'functions of demangle.cpp keep no mutable static state that is touched without a lock')
    nf = 0
    for f in tu.functions.values():
        if tu.fn_file(f) != DEMANGLE_UNIT or tu.body(f) is None:
            continue
        nf += 1
        inst = f['q'].replace('rkcommon::', '')
        statics = []
        for n in tu.walk(tu.body(f)):
            if n.get('kind') == 'VarDecl' and (n.get('storageClass') == 'static' or n.get('tls')):
                qt = n.get('type', {}).get('qualType', '')
                if re.match(r'^const\b', qt) or n.get('constexpr') or 'atomic' in qt or 'once_flag' in qt or 'mutex' in qt:
                    continue
                if n.get('tls'):
                    continue
                statics.append(n)
        # namespace-scope variables of the unit written by the function
        for n in tu.walk(tu.body(f)):
            if n.get('kind') == 'DeclRefExpr':
                d = tu.nodes.get(n.get('referencedDecl', {}).get('id'))
                if d is not None and d.get('kind') == 'VarDecl' and tu.loc(d).startswith(DEMANGLE_UNIT) and d not in statics and \
                        (tu.par(d) or {}).get('kind') in ('NamespaceDecl', 'TranslationUnitDecl'):
                    qt = d.get('type', {}).get('qualType', '')
                    if not (re.match(r'^const\b', qt) or d.get('constexpr') or 'atomic' in qt or 'mutex' in qt or 'once_flag' in qt or d.get('tls')):
                        statics.append(d)
        if not statics:
            ctx.ok(R, inst, 'no mutable static state', tu.fn_loc(f))
            continue
        locked = any(n.get('kind') == 'VarDecl' and re.search(r'lock_guard|unique_lock|scoped_lock', n.get('type', {}).get('qualType', ''))
                     for n in tu.walk(tu.body(f))) or \
            any(n.get('kind') in ('CallExpr', 'CXXMemberCallExpr') and tu.sd(n).get('q', '').split('::')[-1] in ('lock', 'call_once')
                for n in tu.walk(tu.body(f)))
        for d in statics:
            if locked:
                ctx.ok(R, '%s: static `%s`' % (inst, d.get('name')), 'not decided here (the function takes a lock; which accesses it covers is not analysed)',
                       tu.loc(d), nontrivial=False)
            else:
                ctx.violation(R, '%s: static `%s`' % (inst, d.get('name')),
                              '`%s` (%s) has static storage duration, is read and written by every call and no lock is taken: two threads '
                              'printing an Any (toString) or failing a get<T>() at the same time race on it (rehash / insert while another '
                              'thread iterates the buckets)' % (d.get('name'), d.get('type', {}).get('qualType', '')[:80]),
                              tu.loc(d) if tu.loc(d) != '?' else tu.fn_loc(f),
                              key='%s|%s|%s|unsynchronised-static:%s' % (R, DEMANGLE_UNIT, inst, d.get('name')))
    if nf == 0:
        ctx.broken('%s: no function definition found in %s' % (R, DEMANGLE_UNIT))


# ============================================================================================
#  R-C09-9: an Any source of any value category is copied by the copy members
# ============================================================================================
def check_any_categories(ctx, tu):
    R = 'R-C09-9'
    ctx.describe(R, 'copy construction and assignment from an Any lvalue, const lvalue, rvalue and const rvalue resolve to the copy / move '
                    'members of Any, never to the value templates (which would store an Any inside an Any, or recurse); and no holder is '
                    'instantiated for the payload type Any')
    fs = [f for f in tu.functions.values() if f['q'] == 'rkverif::any_value_categories']
    if len(fs) != 1 or tu.body(fs[0]) is None:
        ctx.broken('%s: driver function rkverif::any_value_categories not found' % R)
        return
    f = fs[0]
    n = 0
    for x in tu.walk(tu.body(f)):
        callee = None
        what = None
        if x.get('kind') == 'CXXConstructExpr' and (tu.sd(x).get('rec') == ANY or tu.sd(x).get('q', '').startswith(ANY + '::Any')):
            par = tu.par(x)
            if par is None or par.get('kind') != 'VarDecl':
                continue
            callee, what = tu.callee_fn(x), 'Any %s(...)' % par.get('name')
        elif x.get('kind') == 'CXXOperatorCallExpr' and tu.sd(x).get('q', '').endswith('::operator=') and tu.sd(x).get('rec') == ANY:
            lhs = tu.strip(tu.kids(x)[1], casts=True)
            callee, what = tu.callee_fn(x), '%s = ...' % (tu.show(lhs)[:30] if lhs else '?')
        else:
            continue
        n += 1
        sd = tu.sd(x)
        fty = (callee or {}).get('fty', '') or sd.get('fty', '')
        p0 = (callee['params'][0]['ct'] if callee and callee.get('params') else '')
        is_copy_member = bool(callee) and (callee.get('ctor') in ('copy', 'move') or
                                           (callee['q'].endswith('::operator=') and p0.replace('const ', '').replace(' ', '') in (ANY + '&', ANY + '&&')))
        cat = what.replace('from', '').replace('Any ', '').split('(')[0].split(' =')[0].strip()
        if is_copy_member:
            ctx.ok(R, what, 'resolves to %s %s' % (callee['q'].replace('rkcommon::utility::', ''), callee['fty']), tu.loc(x))
        elif callee is not None and callee.get('rec') == ANY:
            ctx.violation(R, what, 'for a source of category %s overload resolution selects the value template `%s %s` instead of the copy member: '
                          'the source Any is treated as a payload value (an Any nested in an Any, or unbounded recursion while the holder '
                          'parameter is itself constructed from an Any)' % (cat, callee['q'].replace('rkcommon::utility::', ''), callee['fty']),
                          tu.loc(x), key='%s|rkcommon/utility/Any.h|Any|value-template-selected-for-any' % R)
        else:
            ctx.undecided(R, what, 'callee not resolved', tu.loc(x))
    ctx.floor(R, n, 8, '4 constructions + 4 assignments in rkverif::any_value_categories')
    for r in tu.records.values():
        if r.get('tmpl') == ANY + '::handle' and r.get('targs') and r['targs'][0].get('t', '').replace('const ', '').strip() == ANY:
            ctx.violation(R, 'Any::handle<%s>' % r['targs'][0].get('t'), 'a holder for the payload type Any is instantiated: some construction or '
                          'assignment treats an Any as a value to be stored', 'rkcommon/utility/Any.h',
                          key='%s|rkcommon/utility/Any.h|Any::handle|holder-of-any' % R)



# ============================================================================================
#  R-C09-13: an Optional source of any value category is copied by the copy / move / converting constructors
#  R-C09-14: the holder base of Any, through which payloads are deleted, has a virtual destructor
# ============================================================================================
def check_optional_categories(ctx, tu):
    R = 'R-C09-13'
    ctx.describe(R, 'constructing an Optional<T> from an Optional lvalue, const lvalue or rvalue (same or convertible payload) resolves to a '
                    'constructor that takes an Optional, never to one that takes the payload or is built from arbitrary arguments (a bool payload '
                    'is constructible from an Optional through `explicit operator bool`: the copy would hold has_value() of the source)')
    fs = [f for f in tu.functions.values() if f['q'] == 'rkverif::optional_value_categories']
    if len(fs) != 1 or tu.body(fs[0]) is None:
        ctx.broken('%s: driver function rkverif::optional_value_categories not found' % R)
        return
    n = 0
    for x in tu.walk(tu.body(fs[0])):
        if x.get('kind') != 'CXXConstructExpr' or not (tu.sd(x).get('rec') == OPT or tu.sd(x).get('q', '').startswith(OPT)):
            continue
        par = tu.par(x)
        while par is not None and par.get('kind') in ('ExprWithCleanups', 'MaterializeTemporaryExpr', 'CXXBindTemporaryExpr', 'ImplicitCastExpr'):
            par = tu.par(par)
        if par is None or par.get('kind') != 'VarDecl':
            continue
        n += 1
        callee = tu.callee_fn(x)
        what = '%s %s(...)' % (par.get('type', {}).get('qualType', '').replace('rkcommon::utility::', ''), par.get('name'))
        if callee is None or not callee.get('params'):
            ctx.undecided(R, what, 'constructor not resolved', tu.loc(x))
            continue
        p0 = callee['params'][0]['ct']
        p0n = p0.replace('rkcommon::utility::', '').strip()
        # a declared copy / move / converting constructor takes `const Optional<U> &` or `Optional<U> &&`; a non-const lvalue reference to an
        # Optional is what a forwarding (Args &&...) constructor deduces for an lvalue source
        takes_optional = bool(re.match(r'^const Optional<.*> ?&$', p0n) or re.match(r'^Optional<.*> ?&&$', p0n) or
                              re.match(r'^const Optional<.*> ?&&$', p0n))
        if takes_optional and len(callee['params']) == 1:
            ctx.ok(R, what, 'resolves to %s' % callee['fty'].replace('rkcommon::utility::', ''), tu.loc(x))
        else:
            ctx.violation(R, what, 'for this source overload resolution selects `%s %s`, a constructor that takes the payload / arbitrary arguments, '
                          'not an Optional: the source wrapper is converted to the payload type (for bool through `explicit operator bool`), so '
                          'the new Optional is always engaged and holds has_value() of the source instead of its value' % (
                              callee['q'].replace('rkcommon::utility::', ''), callee['fty'].replace('rkcommon::utility::', '')), tu.loc(x),
                          key='%s|rkcommon/utility/Optional.h|Optional|payload-constructor-selected-for-optional' % R)
    ctx.floor(R, n, 8, 'constructions in rkverif::optional_value_categories')
    ctx.ok(R, 'observation', 'assignment `a = b` from a NON-const Optional lvalue does not compile on the pinned tree (the forwarding `operator=(U &&)` '
           'is the better match and its static_assert rejects an Optional): a compile-time refusal, no silent misbehaviour, so the driver only '
           'constructs', 'rkcommon/utility/Optional.h', nontrivial=False)


def check_optional_conversions(ctx, tu):
    R = 'R-C09-15'
    ctx.describe(R, 'an Optional does not convert implicitly to bool / an arithmetic type (`operator bool` is explicit): otherwise the forwarding '
                    '`operator=(U &&)` - the better match for a non-const Optional lvalue - accepts an Optional as a *value* and stores '
                    'bool(rhs) in the payload')
    n = 0
    for v in tu.nodes.values():
        nm = v.get('name') or ''
        if v.get('kind') != 'VarDecl' or not (nm.startswith('optional_') and '_converts_to_' in nm) or not tu.kids(v):
            continue
        cv = tu.sd(tu.kids(v)[-1]).get('cv')
        n += 1
        what = nm.replace('optional_', 'Optional<').replace('_converts_to_', '> -> ')
        if cv == '0':
            ctx.ok(R, what, 'std::is_convertible is false', 'drivers/wrappers.cpp')
        elif cv is None:
            ctx.undecided(R, what, 'the trait was not evaluated by the front end', 'drivers/wrappers.cpp')
        else:
            ctx.violation(R, what, 'an Optional lvalue converts implicitly to the payload-like type (a non-explicit conversion operator): `a = b` with '
                          'a non-const Optional `b` now compiles through the value template `operator=(U &&)` and stores bool(b) - an engaged '
                          'source holding 5 leaves 1, an empty source leaves an engaged 0', 'rkcommon/utility/Optional.h',
                          key='%s|rkcommon/utility/Optional.h|Optional|implicit-conversion-to-payload' % R)
    ctx.floor(R, n, 3, 'conversion traits in drivers/wrappers.cpp')


def check_holder_destructor(ctx, tu):
    R = 'R-C09-14'
    ctx.describe(R, 'Any owns its payload through a pointer to the holder base class and deletes it through that pointer: the base class has a '
                    'virtual destructor, so the holder and the payload of every type are destroyed')
    rec = None
    for r in tu.records.values():
        if r['q'] == ANY:
            rec = r
    if rec is None:
        ctx.broken('%s: record %s not found' % (R, ANY))
        return
    ptrs = [f for f in rec['fields'] if (ANY + '::') in f['ct'] and ('unique_ptr' in f['ct'] or 'shared_ptr' in f['ct'] or f['ct'].rstrip().endswith('*'))]
    if len(ptrs) != 1:
        ctx.ok(R, 'Any', 'not decided here (holder member not identified)', 'rkcommon/utility/Any.h', nontrivial=False)
        return
    m = re.search(re.escape(ANY) + r'::(\w+)', ptrs[0]['ct'])
    base = m.group(1)
    defs = [n for n in tu.nodes.values() if n.get('kind') == 'CXXRecordDecl' and n.get('name') == base and n.get('completeDefinition')
            and (tu.par(n) or {}).get('name') == 'Any']
    if len(defs) != 1:
        ctx.undecided(R, 'Any::' + base, 'definition of the holder base not found (%d candidates)' % len(defs), 'rkcommon/utility/Any.h')
        return
    d = defs[0]
    dt = [x for x in d.get('inner', []) if x.get('kind') == 'CXXDestructorDecl']
    virt = any(x.get('virtual') for x in dt)
    derived = [r for r in tu.records.values() if (r.get('tmpl') or '').startswith(ANY + '::') and r.get('tmpl') != ANY + '::' + base and r.get('targs')]
    inst = 'Any::%s (holder member `%s`)' % (base, ptrs[0]['name'])
    if virt:
        ctx.ok(R, inst, 'virtual destructor; %d holder instantiation(s) derive from it in this unit' % len(derived), tu.loc(d))
    elif 'shared_ptr' in ptrs[0]['ct']:
        ctx.ok(R, inst, 'not decided here (shared_ptr records the deleter of the object it was created with)', tu.loc(d), nontrivial=False)
    else:
        ctx.violation(R, inst, 'the holder is deleted through a pointer to `%s`, whose destructor is not virtual: the destructor of the derived '
                      'holder - and with it the payload destructor - never runs (undefined behaviour); strings, vectors and every other '
                      'payload owning a resource are leaked each time an Any is destroyed, re-assigned or reset' % base,
                      tu.loc(d) if tu.loc(d) != '?' else 'rkcommon/utility/Any.h',
                      key='%s|rkcommon/utility/Any.h|Any::%s|non-virtual-destructor' % (R, base))

# ============================================================================================
#  R-C09-10: members of Any that mirror the holder are written wherever the holder is
# ============================================================================================
def _is_std_move(tu, n):
    if n.get('kind') != 'CallExpr' or not tu.kids(n):
        return False
    if tu.sd(n).get('q') == 'std::move':
        return True
    c = tu.strip(tu.kids(n)[0], casts=True)
    if c is None:
        return False
    if c.get('kind') == 'UnresolvedLookupExpr' and c.get('name') == 'move':
        return True
    return c.get('kind') == 'DeclRefExpr' and c.get('referencedDecl', {}).get('name') == 'move'


def forwarding_sites(tu, fns):
    """(function, parameter name, verdict, node) for every deduced `U &&` (forwarding) parameter of the function templates given:
    'moved' if the body applies std::move to it (an lvalue argument is then moved from), 'ok' otherwise"""
    out = []
    for f in fns:
        body = tu.body(f)
        if not f.get('dep') or body is None:
            continue
        # a `P &&` parameter is a forwarding reference only if P is a template parameter of the function template itself (for a
        # parameter of the enclosing class template `T &&` is an ordinary rvalue reference, and std::move is what it needs)
        fnode = tu.node(f['id'])
        ftd = tu.par(fnode) if fnode is not None else None
        own = set()
        if ftd is not None and ftd.get('kind') == 'FunctionTemplateDecl':
            for k in tu.kids(ftd):
                if k.get('kind') == 'TemplateTypeParmDecl':
                    own.add('type-parameter-%s-%s' % (k.get('depth', 0), k.get('index', 0)))
        for p in f.get('params', []):
            m = re.match(r'^(type-parameter-\d+-\d+) &&(\.\.\.)?$', p.get('ct', ''))
            if not m or m.group(1) not in own:
                continue
            hit = None
            for x in tu.walk(body):
                if _is_std_move(tu, x):
                    for a in tu.kids(x)[1:]:
                        if any(y.get('kind') == 'DeclRefExpr' and y.get('referencedDecl', {}).get('id') == p.get('id') for y in tu.walk(a)):
                            hit = x
            out.append((f, p.get('name'), 'moved' if hit is not None else 'ok', hit))
    return out


def check_forwarding(ctx, tu):
    R = 'R-C09-16'
    ctx.describe(R, 'a deduced `U &&` parameter of Optional / Any (assignment from a value, value_or, emplace, the converting constructors) is '
                    'forwarded, never std::move()d: for an lvalue argument U is an lvalue reference, and moving from it empties the caller\'s object '
                    '(copies are independent of their source)')
    fns = [f for f in tu.functions.values() if f.get('rec') in (OPT, ANY) and tu.fn_file(f).startswith('rkcommon/')]
    sites = forwarding_sites(tu, fns)
    seen = set()
    for f, pn, v, node in sites:
        inst = '%s %s' % (pattern_name(tu, f), f['fty'])
        if (inst, pn) in seen:
            continue
        seen.add((inst, pn))
        if v == 'moved':
            ctx.violation(R, inst, 'the forwarding parameter `%s` is passed to std::move: when the argument is a non-const lvalue (`opt = s;`) its '
                          'payload is moved out, the caller\'s object is left in the moved-from state and a second wrapper assigned from the same '
                          'object gets an empty value; std::forward<U>(%s) moves only from rvalues' % (pn, pn), tu.loc(node),
                          key='%s|%s|%s|forwarding-parameter-moved' % (R, tu.fn_file(f), pattern_name(tu, f)))
        else:
            ctx.ok(R, inst, 'forwarding parameter `%s` is not std::move()d' % pn, tu.fn_loc(f))
    ctx.floor(R, len(seen), 3, 'deduced `U &&` parameters of Optional / Any members (operator=(U &&), value_or, emplace on the pinned tree)')
    fs = [f for f in tu.functions.values() if f['q'].startswith('rkverif::fwd_')]
    got = {}
    for f, pn, v, node in forwarding_sites(tu, fs):
        got[f['q'].split('::')[-1]] = v
    want = {'fwd_moves': 'moved', 'fwd_forwards': 'ok'}
    if got != want:
        ctx.broken('%s self-check: verdicts on drivers/wrappers.cpp are %s, expected %s' % (R, got, want))


def noexcept_payload_sites(tu, fns, payload_of):
    """(function, payload operation node, text) for every member declared unconditionally noexcept whose body - followed through members of
    the same class template - constructs or assigns a payload object"""
    out = []
    for f in fns:
        if f.get('dep') or tu.body(f) is None or not re.search(r'\bnoexcept$', f['fty'].strip()):
            continue
        if f['q'].split('::')[-1].startswith('~'):
            continue
        t = payload_of(f)
        if t is None:
            continue
        norm = lambda q: re.sub(r'\bconst\b|&|\s', '', q or '')
        seen = {f['id']}
        work = [(f, 0)]
        hit = None
        while work and hit is None:
            cur, d = work.pop()
            for x in tu.walk(tu.body(cur)):
                k = x.get('kind')
                if k == 'CXXNewExpr' and norm(x.get('type', {}).get('qualType', '')).rstrip('*') == norm(t):
                    cs = [y for y in tu.walk(x) if y.get('kind') == 'CXXConstructExpr']
                    if cs or True:
                        hit = (x, 'constructs a payload object (`new (storage) T(...)`)')
                        break
                if k in ('CXXOperatorCallExpr', 'BinaryOperator') and (tu.sd(x).get('q', '').endswith('operator=') or x.get('opcode') == '='):
                    ks = tu.kids(x)
                    lhs = ks[1] if k == 'CXXOperatorCallExpr' and len(ks) > 2 else ks[0]
                    if norm(lhs.get('type', {}).get('qualType', '')) == norm(t) and k == 'CXXOperatorCallExpr':
                        hit = (x, 'assigns a payload object (`value() = ...`)')
                        break
                if k in ('CXXMemberCallExpr', 'CXXConstructExpr', 'CXXOperatorCallExpr') and d < 4:
                    cf = tu.callee_fn(x)
                    if cf is not None and cf.get('rec') == f.get('rec') and cf['id'] not in seen and tu.body(cf) is not None:
                        seen.add(cf['id'])
                        work.append((cf, d + 1))
        if hit is not None:
            out.append((f, hit[0], hit[1]))
    return out


def check_noexcept_payload(ctx, tu):
    R = 'R-C09-17'
    ctx.describe(R, 'no Optional / Any member that constructs or assigns a payload object is declared unconditionally `noexcept`: a payload '
                    'constructor or assignment may throw for some T, and the exception then ends in std::terminate instead of reaching the '
                    'caller - live payloads are never destroyed (every payload constructed is destroyed exactly once, for every payload type)')

    def payload_of(f):
        ta = tu.records.get(f.get('recid'), {}).get('targs') or []
        return ta[0].get('t') if ta and isinstance(ta[0], dict) else None
    fns = [f for f in tu.functions.values() if f.get('rec') == OPT and tu.fn_file(f).startswith('rkcommon/')]
    cand = [f for f in fns if not f.get('dep') and tu.body(f) is not None]
    sites = noexcept_payload_sites(tu, fns, payload_of)
    seen = set()
    for f, node, what in sites:
        name = pattern_name(tu, f)
        if name in seen:
            continue
        seen.add(name)
        ctx.violation(R, '%s %s' % (f['q'].replace('rkcommon::utility::', ''), f['fty'].replace('rkcommon::utility::', '')),
                      'declared `noexcept` without a condition, but %s: for a payload type whose constructor / assignment throws, the exception '
                      'cannot leave the function and std::terminate is called; the wrappers involved are never destroyed. A conditional '
                      '`noexcept(std::is_nothrow_move_constructible<T>::value ...)` would be correct' % what, tu.loc(node),
                      key='%s|%s|%s|noexcept-around-payload-operation' % (R, tu.fn_file(f), name))
    nx = [f for f in cand if re.search(r'\bnoexcept$', f['fty'].strip()) and not f['q'].split('::')[-1].startswith('~')]
    ctx.ok(R, 'Optional members', '%d instantiated member function(s) inspected, %d declared unconditionally noexcept, %d of them with a payload '
           'construction / assignment' % (len(cand), len(nx), len(seen)), 'rkcommon/utility/Optional.h', nontrivial=bool(nx))
    ctx.floor(R, len(cand), 20, 'instantiated Optional member functions with a body in drivers/wrappers.cpp')
    ws = [f for f in tu.functions.values() if f.get('rec') == 'rkverif::NxSlot']
    got = sorted(set(f['q'].split('::')[-1] for f, node, what in noexcept_payload_sites(
        tu, ws, lambda f: (tu.records.get(f.get('recid'), {}).get('targs') or [{}])[0].get('t'))))
    if got != ['take']:
        ctx.broken('%s self-check: expected exactly NxSlot<T>::take to be reported on drivers/wrappers.cpp, got %s' % (R, got))


def check_any_mirrors(ctx, tu):
    R = 'R-C09-10'
    ctx.describe(R, 'every data member of Any besides the holder (a cached type, a flag) describes the held value: each member function that '
                    'replaces the holder also writes that member; a function that writes only the holder leaves the description stale')
    rec = None
    for r in tu.records.values():
        if r['q'] == ANY:
            rec = r
    if rec is None:
        ctx.broken('%s: record %s not found' % (R, ANY))
        return
    ptrs = [f for f in rec['fields'] if 'unique_ptr' in f['ct'] or 'shared_ptr' in f['ct'] or f['ct'].endswith('*')]
    holder = [f for f in ptrs if (ANY + '::') in f['ct']] or ptrs
    if len(holder) != 1:
        ctx.ok(R, 'Any', 'not decided here (holder member not identified)', 'rkcommon/utility/Any.h', nontrivial=False)
        return
    holder = holder[0]['name']
    mirrors = [f['name'] for f in rec['fields'] if f['name'] != holder]
    if not mirrors:
        ctx.ok(R, 'Any', 'the holder `%s` is the only data member' % holder, 'rkcommon/utility/Any.h')
        return

    hasinit = {fl['name']: fl.get('hasinit') for fl in rec['fields']}

    def writes(f, member):
        """does the function (body or constructor initialisers) write the member of *this?"""
        if f.get('ctor') and hasinit.get(member):
            return True          # a constructor gives the member its default member initialiser unless it says otherwise
        for e in (tu.cfg(f).blocks.values() if tu.cfg(f) else ()):
            for el in e.el:
                if el[0] == 'I' and el[3] == member and len(el) > 4 and el[4]:
                    return True
                if el[0] == 'I' and el[3] == member:
                    init = tu.node(el[1])
                    if init is not None and init.get('kind') != 'CXXDefaultInitExpr':
                        return True
        for x in tu.walk(tu.body(f) or {}):
            k = x.get('kind')
            tgt = None
            if k in ('BinaryOperator', 'CompoundAssignOperator') and x.get('opcode', '').endswith('=') and x.get('opcode') not in ('==', '!=', '<=', '>='):
                tgt = tu.strip(tu.kids(x)[0], casts=True)
            elif k == 'CXXOperatorCallExpr' and tu.sd(x).get('q', '').endswith('::operator=') and len(tu.kids(x)) >= 2:
                tgt = tu.strip(tu.kids(x)[1], casts=True)
            elif k == 'CXXMemberCallExpr' and tu.sd(x).get('q', '').split('::')[-1] in ('reset', 'swap', 'release'):
                tgt = tu.strip(tu.call_parts(x)[1], casts=True) if tu.call_parts(x)[1] is not None else None
            if tgt is not None and tgt.get('kind') == 'MemberExpr' and tgt.get('name') == member:
                base = tu.strip(tu.kids(tgt)[0], casts=True) if tu.kids(tgt) else None
                if base is None or base.get('kind') == 'CXXThisExpr':
                    return True
        return False
    n = 0
    for f in sorted(tu.functions.values(), key=lambda x: (x['q'], x['fty'])):
        if f['dep'] or f.get('rec') != ANY or tu.body(f) is None:
            continue
        if not writes(f, holder):
            continue
        # delegation: a function that assigns through another Any member (e.g. `*this = Any(x)`) is judged through that member
        n += 1
        inst = '%s %s' % (f['q'].replace('rkcommon::utility::', ''), f['fty'])
        stale = [m for m in mirrors if not writes(f, m)]
        if stale:
            ctx.violation(R, inst, 'replaces the holder `%s` but never writes `%s`, which describes the held value and is read elsewhere: after this '
                          'operation the member still describes the previous payload (stale type / state)' % (holder, '`, `'.join(stale)),
                          tu.fn_loc(f), key='%s|%s|%s|mirror-not-updated' % (R, tu.fn_file(f), pattern_name(tu, f)))
        else:
            ctx.ok(R, inst, 'writes %s together with the holder' % ', '.join('`%s`' % m for m in mirrors), tu.fn_loc(f))
    if n == 0:
        ctx.undecided(R, 'Any', 'no member function that writes the holder `%s` was found' % holder, 'rkcommon/utility/Any.h')


# ============================================================================================
#  R-C09-11: the payload of an Optional is direct-initialised, never list-initialised
# ============================================================================================
def check_optional_init_style(ctx, tu):
    R = 'R-C09-11'
    ctx.describe(R, 'every placement-new of the payload in Optional uses direct initialisation `T(args...)`: list-initialisation `T{args...}` '
                    'prefers an initializer_list constructor, so emplace(3, 7) on an Optional<std::vector<int>> would hold {3, 7} and an '
                    'Optional<std::vector<Any>> built from a vector would hold a one-element vector wrapping it')
    n = 0
    seen = set()
    for f in sorted(tu.functions.values(), key=lambda x: (x['q'], x['fty'])):
        if not _opt_rec(f.get('rec')) or tu.body(f) is None:
            continue
        for x in tu.walk(tu.body(f)):
            if x.get('kind') != 'CXXNewExpr' or not tu.sd(x).get('nplace', 0):
                continue
            pk = (pattern_name(tu, f), tu.loc(x))
            if pk in seen:
                continue
            seen.add(pk)
            n += 1
            inst = '%s @%s' % (pattern_name(tu, f), tu.loc(x))
            style = x.get('initStyle')
            if style == 'list':
                ctx.violation(R, inst, 'the payload is constructed with braces (`%s`): for payload types with an initializer_list constructor the '
                              'arguments become the elements of a list instead of constructor arguments, so the wrapper does not hold the value '
                              'it was given' % tu.show(x)[:70], tu.loc(x),
                              key='%s|rkcommon/utility/Optional.h|%s|list-initialisation' % (R, pattern_name(tu, f)))
            elif style in ('call', None):
                ctx.ok(R, inst, 'direct initialisation' if style == 'call' else 'default initialisation', tu.loc(x), nontrivial=False)
            else:
                ctx.undecided(R, inst, 'initialisation style `%s` not recognised' % style, tu.loc(x))
    ctx.floor(R, n, 1, 'placement-new sites in Optional (at least emplace; 3 on the pinned tree)')


def run(ctx):
    ctx.assume('*this and the argument of an Optional assignment are distinct objects (self-assignment not modelled)')
    ctx.assume('payload types behave as values; their own constructors/destructors are not analysed')
    tu = ctx.front.parse('drivers/wrappers.cpp', 'TBB')
    check_optional(ctx, tu)
    check_layout(ctx, tu)
    check_storage_bytes(ctx, tu)
    check_optional_init_style(ctx, tu)
    check_any(ctx, tu)
    check_any_categories(ctx, tu)
    check_optional_categories(ctx, tu)
    check_optional_conversions(ctx, tu)
    check_holder_destructor(ctx, tu)
    check_forwarding(ctx, tu)
    check_noexcept_payload(ctx, tu)
    check_any_mirrors(ctx, tu)
    check_demangle(ctx)
    if ctx.tier == 'thorough':
        tu2 = ctx.front.parse('drivers/wrappers.cpp', 'TBB', std='gnu++17')
        check_optional(ctx, tu2)
        check_layout(ctx, tu2)
        check_storage_bytes(ctx, tu2)
        check_any(ctx, tu2)
    from rkstatic import selftest
    selftest.run(ctx)
