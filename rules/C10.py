"""C10 - FlatMap and ParameterizedObject conform to an insertion-ordered unique-key map.

Decided statically on the CFG paths of every instantiated member (drivers/c10_maps.cpp; path summaries and
expression normal forms from rkstatic/x_symnf.py).  The rules are the per-operation invariants a conformance
proof against a reference map needs:
  R-C10-1  unique keys: every insertion into the sequence (FlatMap::values, ParameterizedObject::paramList) is
           reached only on the failed edge of a lookup *of the key being inserted* (lookup = find_if over the whole
           sequence with an equality predicate on the key member), with no change of the sequence in between.
           The element enters the sequence already carrying that key: an element appended default-constructed and
           given its key afterwards is accepted only when assigning the key type cannot throw (otherwise a
           phantom entry under KEY() remains when it does).
  R-C10-2  insertion order: the sequence is changed only by order-preserving operations (append, stable_partition
           / remove_if followed by truncation at the returned iterator, erase, clear, reserve, pop_back);
           partition, sort, reverse, rotate, swap / iter_swap, whole-element overwrite are rejected.
  R-C10-3  FlatMap operations: at() throws std::out_of_range exactly on the failed-lookup edge and returns the
           found element's .second otherwise; operator[] returns the found value or appends (key, VALUE()) and
           returns the new last value; contains is `lookup != end`; erase removes exactly the elements whose
           key equals the argument (predicate = negation / identity of lookup's, per algorithm); at_index, size,
           empty, clear, reserve forward to the sequence.
  R-C10-4  const / non-const siblings (and begin/cbegin-style accessors) have identical path summaries.
  R-C10-5  ParameterizedObject: findParam(name, false) never inserts and returns the found parameter or null;
           findParam(name, true) never returns null and inserts only a parameter of that name when none exists;
           hasParam / getParam use the non-inserting form; getParam sets `query` and calls get<T>() exactly on the
           path `param != null && data.is<T>()` (same T) and otherwise returns the default untouched;
           setParam stores into the parameter found-or-added under that name; removeParam erases only the found
           iterator; resetAllParamQueryStatus writes query = false on every element of the sequence.
           Derived state (members other than the list): a counter / flag of queried parameters that lets the reset
           return early, and a remembered (position, name) that lets findParam skip the search, are accepted exactly
           when their maintenance obligations hold on every path of every member (flag set => counter raised;
           counter lowered only for a parameter tested to be flagged and un-flagged / removed; position rewritten
           or invalidated after every erase / insert-before-end / compaction); any other influence of such a
           member on results is undecided.
  R-C10-6  a key / name taken by reference may designate a key stored in the container itself (erase(m.begin()->first),
           removeParam(p->name)): it is not read again after the sequence has moved or destroyed elements, and it is not
           captured by reference in the predicate of an element-moving algorithm unless the key type is trivially
           copyable (then a move is a copy and, keys being unique, the comparisons stay right).
Key equality: a lookup that compares keys with memcmp over sizeof(KEY) is key equality for integer / pointer keys, a violation for
floating-point keys (+0.0 / -0.0, NaN), undecided for class types (FlatMap<double,int> is instantiated for this).  The query status
may be a bool or an integer: set by a non-zero constant, or raised by ++ only when it cannot wrap (64-bit) - an unsaturated
narrower counter is a violation.  setParam: `data = Any(); data = v` (release, then build) is recognised wrong; other shapes
with several assignments are undecided.
A hand-unrolled / counted linear search (counter = distance(first, last), main loop by a constant step, switch on the rest) is
decided by running its CFG for every element count up to three times the largest constant the counter is compared with (larger
counts reduce to these because the counter only meets constants): if every position 0..N-1 is compared once, in order, it is the
find_if it implements; if positions are skipped or lie outside the range it is reported as such (search-skips-elements).
getParam: a typed read guarded by a test of another member of the parameter (a cached type) instead of the stored value is a
violation; a test of the stored value in another form is undecided.  removeParam must erase the entry it found.
at() written as its own search loop (range-for / iterator loop returning from inside, throw after it) is summarised as
`L = find_if(...); L == end ? <after the loop> : <inside>` and held to the same specification; a reference returned into a
converted copy of the element (a loop variable of a different pair type) is a violation.  erase(lookup(key)) without the end()
test is a violation.  getParam is judged relative to the findParam call it makes.
Lookup predicates: `a.compare(b) == 0` is `a == b`; a strncmp over the length of one operand is a prefix comparison
(recognised wrong); predicates built from other calls are undecided.  setParam leaves the query flag of the parameter
it writes alone.
Calls to helpers are followed (members of the analysed classes, free / file-local functions; a [[noreturn]] helper
that throws ends the path with that throw); a helper whose own summary is a linear search - cursor from first to
last, end test before element test, returns at the first element whose key equals the argument, else last, no other
effect - is treated as the std::find_if it implements, whatever its name.  findParam keeps its own specification.
Not decided: step-by-step agreement with a reference map on arbitrary histories.
"""
import re

from rkstatic.x_symnf import (SymExec, Unsupported, unver, versions_in, show, last, strip_targs, contains, find_all,
                              mk_comm, mk_eq, mk_not, base_name)

LEVEL = 'other'
EXPLANATION = (
    "Every instantiated member of FlatMap (key/value types int/int, std::string/int; thorough: two more, gnu++17) and "
    "every member of ParameterizedObject (getParam/setParam for int, float, std::string) is summarised per CFG path "
    "(branch conditions, ordered effects on the underlying vector, returned / thrown value) in a normal form that is "
    "invariant under temporaries, if/?: and operand order. Decided for all histories, as per-operation invariants: "
    "insertions happen only after a failed lookup of the same key (keys stay unique); only order-preserving mutators "
    "touch the sequence (iteration = first-insertion order, removals keep the order of the rest); at()/operator[]/"
    "contains/erase/findParam/getParam/removeParam have exactly the guarded shape the map semantics require, incl. "
    "the exact-type test and the query flag; const and non-const siblings agree. Not decided: the inductive step "
    "from these invariants to agreement with a reference map on every history, the behaviour of KEY::operator== "
    "and of Any, copies of a ParameterizedObject sharing their parameters.")

FM = 'rkcommon::containers::FlatMap'
PO = 'rkcommon::utility::ParameterizedObject'
PARAM = PO + '::Param'
ANY = 'rkcommon::utility::Any'
THIS = ('this',)

INT_WIDTH = {'bool': 1, 'unsigned char': 8, 'signed char': 8, 'char': 8, 'unsigned short': 16, 'short': 16, 'unsigned int': 32, 'int': 32,
             'unsigned long': 64, 'long': 64, 'unsigned long long': 64, 'long long': 64}
INTEGRAL_KEYS = set(INT_WIDTH) | {'wchar_t', 'char16_t', 'char32_t'}
FLOAT_KEYS = {'float', 'double', 'long double'}
APPEND = {'push_back', 'emplace_back'}
INSERT = {'insert', 'emplace'}
ORDER_OK = {'clear', 'reserve', 'shrink_to_fit', 'pop_back', 'erase'}
ALGO_READ = {'std::any_of', 'std::find_if', 'std::find', 'std::find_if_not', 'std::distance', 'std::any_of', 'std::all_of', 'std::none_of',
             'std::count', 'std::count_if', 'std::for_each', 'std::next', 'std::prev', 'std::advance', 'std::begin', 'std::end',
             'std::lower_bound', 'std::upper_bound', 'std::binary_search', 'std::equal', 'std::accumulate', 'std::move',
             'std::forward', 'std::make_pair', 'std::addressof'}
ALGO_COMPACT = {'std::stable_partition': 'keep', 'std::remove_if': 'drop', 'std::remove': 'value',
                # hand-written shift-down loop (x_symnf._loop_compact) started at the position K a search returned: the element at K is
                # dropped, behind it the elements satisfying the predicate are kept in order; arguments (K, last, predicate)
                'loop::shift_down': 'keep'}
SHIFT_WRONG = ('`%s` closes the gap with std::move_backward: its destination end lies inside the source range (first < d_last <= last), '
               'which is the case move_backward must not be used for - it copies from the back, so when two or more elements follow the erased one '
               'the last element is propagated down the whole tail ([a,b,c,d] minus a gives [d,d,d]): the remaining elements are not the ones that '
               'were stored. Shifting towards the front is std::move(first, last, d_first)')
ALGO_REORDER = {'std::partition', 'std::sort', 'std::stable_sort', 'std::reverse', 'std::rotate', 'std::swap', 'std::iter_swap',
                'std::swap_ranges', 'std::random_shuffle', 'std::shuffle', 'std::nth_element', 'std::partial_sort',
                'std::make_heap', 'std::push_heap', 'std::pop_heap', 'std::sort_heap', 'std::next_permutation',
                'std::prev_permutation', 'std::unique', 'std::inplace_merge'}


def follow_c10(f):
    """helper calls whose paths are spliced into the caller's summary: every member of FlatMap / ParameterizedObject /
    Param and every free or file-local function of rkcommon - except findParam, which has its own specification
    (R-C10-5) and is kept as a named call in its callers"""
    q = strip_targs(f['q'])
    if q == PO + '::findParam':
        return False
    rec = f.get('rec')
    if rec:
        return rec in (FM, PO, PARAM)
    return q.startswith('rkcommon::')


def norm_str_ref(ct):
    return ct.replace('const ', '').replace('&', '').strip() in ('std::basic_string<char>', 'std::string')


def mk_se(tu):
    return SymExec(tu, own=lambda f: f['q'].startswith('rkcommon::'), inline_stmt=follow_c10, recognise_search=True, recognise_loops=True)


def paths_of(se, f, args=None):
    """path summaries of f; a function that begins with its own search loop (iterator / range-for loop that acts on the match inside
    the loop) is first rewritten into the equivalent `L = find_if(...); if (L == end) ... else ...` form"""
    lf = se.lookup_form(f, args=args)
    return lf if lf is not None else se.paths(f, args=args)


def is_followed_helper(tu, f, class_fns):
    """private member that the path summariser splices into its callers and that some other member of the class calls: it is
    never an entry point, so the path rules (insert only after a failed lookup, derived-state obligations) judge it inside its
    callers' paths, with their conditions"""
    if f.get('access') != 'private' or f.get('ctor') or f.get('dtor') or not follow_c10(f):
        return False
    for g_ in class_fns:
        if g_ is f:
            continue
        cfg = tu.cfg(g_)
        if cfg is None:
            continue
        for b, i, x in cfg.stmts():
            if x.get('kind') in ('CXXMemberCallExpr', 'CallExpr', 'CXXOperatorCallExpr'):
                sd = tu.sd(x)
                if (sd.get('def') or sd.get('d')) == f['id']:
                    return True
    return False


def short(q):
    return q.replace('rkcommon::containers::', '').replace('rkcommon::utility::', '')


def pattern_name(tu, f):
    p = tu.functions.get(f.get('pat')) if f.get('pat') else None
    if p is not None:
        return '%s %s' % (short(strip_targs(p['q'])), p['fty'])
    return '%s %s' % (short(strip_targs(f['q'])), f['fty'])


def inst_name(f):
    return '%s %s' % (short(f['q']), f['fty'])


def vbegin(S):
    return ('call', 'std::vector::begin', S)


def vend(S):
    return ('call', 'std::vector::end', S)


VOCAB_HEADS = {'field', 'deref', 'addr', 'param', 'lparam', 'this', 'const', 'null', 'not', 'eq', 'lt', 'add', 'mul', 'elem', 'pred',
               'str', 'call', 'construct', 'none'}
VOCAB_CALLS = {'std::vector::begin', 'std::vector::end', 'std::vector::rbegin', 'std::vector::rend', 'std::vector::back',
               'std::vector::front', 'std::vector::at', 'std::vector::size', 'std::vector::empty', 'std::vector::capacity',
               'std::find_if', 'std::any_of', 'std::__shared_ptr::get', 'std::shared_ptr::get', PO + '::findParam', 'std::make_pair',
               'std::make_shared'}


def has_unknown(nf):
    """is the value outside the small vocabulary in which normal forms are canonical?  A mismatch with the expected
    value is reported as a violation only inside the vocabulary; everything else is undecided."""
    def bad(t):
        if not t or not isinstance(t[0], str):
            return False
        if t[0] in ('var', 'opaque', 'lambda', 'defarg', 'cond', 'binop', 'cast', 'void'):
            return True
        if t[0] == 'call':
            return not (t[1] in VOCAB_CALLS or base_name(t[1]) in (ANY + '::get', ANY + '::is'))
        return t[0] not in VOCAB_HEADS and not (len(t) <= 3 and all(not isinstance(x, tuple) for x in t))
    return bool(find_all(nf, bad))


def _subst_nf(x, a, b):
    if x == a:
        return b
    if isinstance(x, tuple):
        return tuple(_subst_nf(y, a, b) for y in x)
    return x


class Seq:
    """the sequence member of one record and the recognisers built on it"""

    def __init__(self, tu, se, rec, S):
        self.tu, self.se, self.rec, self.S = tu, se, rec, S
        self.bytewise = set()      # (x, y, length) of lookup predicates written as memcmp(&x, &y, length) == 0

    def match_lookup(self, nf):
        """(key expression over ('lparam',0), searched key) if nf is find_if(S.begin(), S.end(), [key(elem) == K])"""
        S = self.S
        nf = unver(nf)
        if not (isinstance(nf, tuple) and len(nf) == 6 and nf[0] == 'call' and nf[1] == 'std::find_if' and nf[2] is None):
            return None
        if nf[3] != vbegin(S) or nf[4] != vend(S):
            return None
        p = nf[5]
        if isinstance(p, tuple) and p[0] == 'pred' and isinstance(p[1], tuple) and p[1][0] == 'and':
            # key(elem) == K  &&  further tests that key equality implies (the same function of both: elem.name.size() == K.size()):
            # the conjunction is the key comparison
            cj = self.conjuncts(p[1])
            keyc = [c for c in cj if c[0] == 'eq' and any(isinstance(x, tuple) and x[:1] == ('param',) for x in c[1:])
                    and any(contains(x, ('lparam', 0)) for x in c[1:])]
            if len(keyc) != 1:
                return None
            ka, kb = keyc[0][1], keyc[0][2]
            if contains(kb, ('lparam', 0)):
                ka, kb = kb, ka
            for c in cj:
                if c is keyc[0]:
                    continue
                if not (c[0] == 'eq' and any(mk_eq(_subst_nf(x, ka, kb), y) == mk_eq(y, y) for x, y in ((c[1], c[2]), (c[2], c[1])))):
                    return None
            p = ('pred', keyc[0])
        if not (isinstance(p, tuple) and p[0] == 'pred' and isinstance(p[1], tuple) and p[1][0] == 'eq'):
            return None
        a, b = p[1][1], p[1][2]
        # x.compare(y) == 0  is  x == y
        for x, y in ((a, b), (b, a)):
            if y == ('const', 0) and isinstance(x, tuple) and x[0] == 'call' and x[1] == 'std::basic_string::compare' and len(x) == 4:
                a, b = x[2], x[3]
                break
        # memcmp(&x, &y, sizeof(KEY)) == 0 compares the object representations of x and y; whether that is key equality depends
        # on the key type and is judged once per instantiation (check_flatmap); structurally it is a comparison of x with y
        for x, y in ((a, b), (b, a)):
            if y == ('const', 0) and isinstance(x, tuple) and x[0] == 'call' and x[1] in ('memcmp', 'std::memcmp') and len(x) == 6 \
                    and all(isinstance(z, tuple) and z[0] == 'addr' for z in x[3:5]):
                self.bytewise.add((x[3][1], x[4][1], x[5]))
                a, b = x[3][1], x[4][1]
                break
        la, lb = contains(a, ('lparam', 0)), contains(b, ('lparam', 0))
        if la and not lb:
            return a, b
        if lb and not la:
            return b, a
        return None

    @staticmethod
    def conjuncts(x):
        if isinstance(x, tuple) and x and x[0] == 'and':
            out = []
            for y in x[1:]:
                out.extend(Seq.conjuncts(y))
            return out
        return [x]

    def digest_lookup(self, nf):
        """[(element side, other side)] of the conjuncts of a find_if over the whole sequence whose predicate is a conjunction of
        equalities, each with the element on one side only; None otherwise"""
        S = self.S
        nf = unver(nf)
        if not (isinstance(nf, tuple) and len(nf) == 6 and nf[:3] == ('call', 'std::find_if', None) and nf[3] == vbegin(S) and nf[4] == vend(S)
                and isinstance(nf[5], tuple) and nf[5][0] == 'pred'):
            return None
        out = []
        for c in self.conjuncts(nf[5][1]):
            if not (isinstance(c, tuple) and len(c) == 3 and c[0] == 'eq'):
                return None
            la, lb = contains(c[1], ('lparam', 0)), contains(c[2], ('lparam', 0))
            if la == lb:
                return None
            out.append((c[1], c[2]) if la else (c[2], c[1]))
        return out

    def rev_lookup_cond(self, path):
        """(failed?, R, keyexpr, K) for a decided `R == S.rend()` with R = find_if(S.rbegin(), S.rend(), [key(elem) == K]): the search
        run back to front"""
        S = self.S
        rb, re_ = ('call', 'std::vector::rbegin', S), ('call', 'std::vector::rend', S)
        for c, pol, _ in path.conds:
            cu = unver(c)
            if isinstance(cu, tuple) and cu[0] == 'eq' and re_ in cu[1:]:
                x = cu[2] if cu[1] == re_ else cu[1]
                if isinstance(x, tuple) and len(x) == 6 and x[:3] == ('call', 'std::find_if', None) and x[3] == rb and x[4] == re_:
                    m = self.match_lookup(x[:3] + (vbegin(S), vend(S), x[5]))
                    if m is not None:
                        return pol, x, m[0], m[1]
        return None

    def judge_reverse_erase(self, path, evs, tu, who, probs, und):
        """erase after a back-to-front search R: the forward iterator of the element *R is std::next(R).base() (= R.base() - 1);
        R.base() itself designates the element after it"""
        rc = self.rev_lookup_cond(path)
        if rc is None:
            return False
        failed, R, kx, K = rc
        if failed:
            if evs:
                probs.append(('erase-when-missing', '%s modifies the sequence (`%s`) although the key was not found' % (who, tu.show(evs[0][2].node))))
            return True
        erases = [x for x in evs if x[0] == 'member' and x[1] == 'erase']
        if len(evs) != 1 or len(erases) != 1 or len(erases[0][2].value or ()) != 1:
            und.append(('erase-shape', '%s after a back-to-front search does not consist of one single-iterator erase' % who))
            return True
        a = unver(erases[0][2].value[0])
        base = lambda x: ('call', 'std::reverse_iterator::base', x)
        good = (base(('call', 'std::next', None, R, ('const', 1))), base(('call', 'std::next', None, R)), base(mk_comm('add', [R, ('const', 1)])),
                mk_comm('add', [base(R), ('const', -1)]), ('call', 'std::prev', None, base(R), ('const', 1)), ('call', 'std::prev', None, base(R)))
        if a in good:
            return True
        if a == base(R):
            probs.append(('erase-reverse-base',
                          '%s searches back to front and erases `%s`: for a reverse iterator r the element it designates is *(r.base() - 1), so '
                          'r.base() is the element *after* the one that was found - the requested key stays in the container and its successor is removed '
                          '(for the last element this is erase(end())); the forward position is std::next(r).base()' % (who, tu.show(erases[0][2].node))))
        else:
            und.append(('erase-shape', '%s erases `%s` after a back-to-front search; not recognised as the found element' % (who, show(a))))
        return True

    def lookup_cond(self, path, upto=None):
        """(failed?, L, keyexpr, K, cond nf versioned) for the first decided condition `L == S.end()` on the path"""
        conds = path.conds if upto is None else path.conds[:upto]
        for c, pol, _ in conds:
            cu = unver(c)
            if isinstance(cu, tuple) and cu[0] == 'eq':
                for x, y in ((cu[1], cu[2]), (cu[2], cu[1])):
                    if y == vend(self.S):
                        m = self.match_lookup(x)
                        if m is not None:
                            return pol, x, m[0], m[1], c
        return None

    def seq_events(self, path, fn_const):
        """ordered effects on the sequence: [(kind, name, ev)], kind in member | algo | store"""
        S = self.S
        out = []
        for ev in path.events:
            if ev.kind == 'mutate' and ev.place == S:
                out.append(('member', ev.how, ev))
            elif ev.kind == 'mutate' and ev.place is not None and contains(ev.place, S):
                out.append(('member-sub', ev.how, ev))
            elif ev.kind == 'store' and ev.nf is not None and contains(ev.nf, S) and not (ev.place is not None and ev.place[0] == 'var'):
                out.append(('store', '=', ev))
            elif ev.kind == 'call' and last(ev.how or '') == 'operator=' and ev.place is not None and self.is_elem(ev.place):
                out.append(('store', 'operator=', ev))      # assignment to a whole element of class type
            elif ev.kind == 'call' and last(ev.how or '') == 'operator=' and isinstance(ev.place, tuple) and ev.place[:1] == ('field',) \
                    and len(ev.place) == 3 and self.is_elem(ev.place[1]):
                out.append(('store', 'operator=', ev))      # assignment to a class-type member (key / value) of an element
            elif ev.kind == 'call' and (ev.node.get('kind') == 'CallExpr' or getattr(ev, 'idiom', False)) and not fn_const:
                vals = [unver(v) for v in (ev.value or ())]
                if any(contains(v, S) for v in vals):
                    nm = ev.how
                    if nm == 'std::move' and len(vals) == 3:
                        nm = 'std::move(range)'       # the algorithm (it writes through its third argument), not the cast
                    out.append(('algo', nm, ev))
        # `std::move(next(P), S.end(), P); S.pop_back();` is vector::erase(P) spelled out: the successors are move-assigned one slot
        # down in order and the vacated last slot is destroyed
        i = 0
        while i + 1 < len(out):
            k0, n0, e0 = out[i]
            k1, n1, e1 = out[i + 1]
            if k0 == 'algo' and n0 == 'std::move(range)' and k1 == 'member' and n1 == 'pop_back':
                a = [unver(v) for v in e0.value]
                nxt = (('call', 'std::next', None, a[2], ('const', 1)), ('call', 'std::next', None, a[2]), mk_comm('add', [a[2], ('const', 1)]))
                if a[0] in nxt and a[1] == vend(S):
                    from rkstatic.x_symnf import Event
                    er = Event('mutate', e0.node, nf=e0.nf, place=S, how='erase', value=(e0.value[2],), conds_n=e0.conds_n, extra=e0.extra)
                    er.ver, er.depth = e0.ver, e0.depth
                    out[i:i + 2] = [('member', 'erase', er)]
            i += 1
        for i, (k0, n0, e0) in enumerate(out):
            if k0 == 'algo' and n0 == 'std::move_backward' and len(e0.value or ()) == 3:
                a = [unver(v) for v in e0.value]
                # (first, last, d_last) with d_last == last - 1 and first behind the start of the destination: overlapping, shifted down
                if a[1] == vend(S) and a[2] in (mk_comm('add', [vend(S), ('const', -1)]), ('call', 'std::prev', None, vend(S), ('const', 1)),
                                                ('call', 'std::prev', None, vend(S))) \
                        and isinstance(a[0], tuple) and (a[0][:3] == ('call', 'std::next', None) or (a[0][0] == 'add' and ('const', 1) in a[0][1:])):
                    out[i] = ('algo', 'std::move_backward(overlap-down)', e0)
        for i, (k0, n0, e0) in enumerate(out):
            if k0 == 'algo' and n0 == 'std::move(range)':
                a = [unver(v) for v in e0.value]
                nxt = (('call', 'std::next', None, a[2], ('const', 1)), ('call', 'std::next', None, a[2]), mk_comm('add', [a[2], ('const', 1)]))
                if a[0] in nxt and a[1] == vend(S):
                    out[i] = ('algo', 'std::move(shift-down)', e0)      # the shift alone: the size stays, the last slot is left moved-from
        return out

    def is_elem(self, nf):
        """is nf an element of the sequence (S[i], S.at(i), S.back(), S.front(), *iterator-into-S)?"""
        S = self.S
        if not isinstance(nf, tuple) or not nf:
            return False
        if nf[0] == 'elem' and nf[1] == S:
            return True
        if nf[0] == 'call' and nf[1] in ('std::vector::back', 'std::vector::front', 'std::vector::at') and nf[2] == S:
            return True
        if nf[0] == 'deref' and contains(nf[1], S):
            return True
        return False

    def elem_key(self, elem, keyexpr):
        """value the key expression takes on a freshly built element, or None"""
        elem = unver(elem)
        if not isinstance(elem, tuple) or not elem:
            return None
        if keyexpr[0] == 'field' and keyexpr[1] == ('lparam', 0) and keyexpr[2] in ('first', 'second'):
            i = 0 if keyexpr[2] == 'first' else 1
            if elem[0] == 'call' and elem[1] == 'std::make_pair' and len(elem) == 5:
                return elem[3 + i]
            if elem[0] == 'construct' and elem[1].startswith('std::pair<') and len(elem) == 4:
                return elem[2 + i]
            return None
        if keyexpr[0] == 'field' and keyexpr[1] == ('deref', ('lparam', 0)):
            fld = keyexpr[2]
            args = None
            rec = None
            if elem[0] == 'call' and elem[1] == 'std::make_shared' and elem[2] is None:
                args = elem[3:]
            elif elem[0] == 'construct' and elem[1].startswith('std::shared_ptr<') and len(elem) >= 3 and \
                    isinstance(elem[2], tuple) and elem[2][0] == 'new':
                return None
            if args is None:
                return None
            # constructor of the pointee with that many parameters
            ptype = None
            for r in self.tu.records.values():
                if r.get('q') == PARAM and any(f['name'] == fld for f in r.get('fields', [])):
                    ptype = r
            if ptype is None:
                return None
            ctors = [f for f in self.tu.functions.values() if f.get('recid') == ptype['id'] and f.get('ctor') == 'other'
                     and len(f.get('params', [])) == len(args) and self.tu.cfg(f) is not None]
            if len(ctors) != 1:
                return None
            try:
                ps = self.se.paths(ctors[0], this=('obj',), args=tuple(args))
            except Unsupported:
                return None
            vals = set()
            for p in ps:
                for ev in p.events:
                    if ev.kind == 'init' and ev.how == fld:
                        vals.add(unver(ev.value))
            return vals.pop() if len(vals) == 1 else None
        return None


# ============================================================================================
#  generic rules over one record: R-C10-1, R-C10-2
# ============================================================================================
def path_pos(p, ev):
    for i, e in enumerate(p.events):
        if e is ev:
            return i
    return -1


def is_elem_field_store(seq, x):
    """sequence event that updates a member (key / value) of an element, not the sequence itself"""
    kind, name, ev = x
    if kind != 'store':
        return False
    lhs = ev.nf if ev.kind == 'store' else ev.place
    return isinstance(lhs, tuple) and lhs[:1] == ('field',) and len(lhs) == 3 and seq.is_elem(lhs[1])


def lookup_mismatch(kx, K, keyexpr0, Kexp):
    """how a lookup predicate `kx(elem) == K` differs from `key member == argument`: ('viol' | 'und', kind, text) or None.
    Recognised wrong: another member of the element is compared, the key is compared with something other than the argument, or
    only a prefix is compared (strncmp over the length of one operand).  A predicate built from other calls is undecided."""
    if kx == keyexpr0 and unver(K) == Kexp:
        return None
    def plain(x):
        return not find_all(x, lambda t: t[0] in ('call', 'opaque', 'var', 'cond', 'cast'))
    if isinstance(kx, tuple) and kx[0] == 'call' and kx[1] in ('strncmp', 'std::strncmp') and len(kx) == 6 and unver(K) == ('const', 0):
        n = kx[5]
        ops = [x[2] for x in kx[3:5] if isinstance(x, tuple) and x[0] == 'call' and last(x[1]) in ('c_str', 'data') and len(x) == 3]
        sizes = [('call', 'std::basic_string::size', o) for o in ops] + [('call', 'std::basic_string::length', o) for o in ops]
        if len(ops) == 2 and n in sizes:
            return ('viol', 'lookup-prefix-comparison',
                    'the lookup predicate `%s == 0` compares only the first `%s` characters: a stored name that merely starts with the requested '
                    'one is taken for it (and the other way round)' % (show(kx), show(n)))
        return ('und', 'lookup-other-key', 'the lookup predicate `%s == 0` is not recognised' % show(kx))
    if plain(kx) and plain(unver(K)):
        if kx != keyexpr0:
            return ('viol', 'lookup-not-on-key', 'the lookup compares `%s` instead of the key member `%s`' % (show(kx), show(keyexpr0)))
        return ('viol', 'lookup-other-key', 'the lookup searches for `%s` instead of the argument `%s`' % (show(K), show(Kexp)))
    return ('und', 'lookup-other-key', 'the lookup predicate `%s == %s` is not recognised as `key member == argument`' % (show(kx), show(K)))


def report_mismatch(mm, probs, und):
    if mm is None:
        return
    (probs if mm[0] == 'viol' else und).append((mm[1], mm[2]))


def appended_elem(seq, x):
    """arguments describing the element when the sequence event appends at the end (push_back / emplace_back, or insert / emplace at
    end()), else None"""
    kind, name, ev = x
    if kind != 'member':
        return None
    vals = [unver(a) for a in (ev.value or ())]
    if name in APPEND:
        return vals
    if name in INSERT and vals and vals[0] == vend(seq.S):
        return vals[1:]
    return None


def check_sequence_rules(ctx, tu, se, seq, fns, file_of, tag, counts):
    R1, R2 = 'R-C10-1', 'R-C10-2'
    S = seq.S
    for f in fns:
        if is_followed_helper(tu, f, fns):
            continue
        inst = inst_name(f) + tag
        pname = pattern_name(tu, f)
        loc = tu.fn_loc(f)
        file = tu.fn_file(f)
        try:
            paths = paths_of(se, f)
        except Unsupported as e:
            ctx.undecided(R2, inst, 'control flow not supported by the path summariser: %s' % e, loc)
            continue
        nmut = 0
        viol = False
        for p in paths:
            evs = seq.seq_events(p, bool(f.get('const')))
            compacts = []
            consumed = set()
            reordered = False
            for kind, name, ev in evs:
                if id(ev) in consumed:
                    continue
                l = tu.loc(ev.node)
                what = tu.show(ev.node)
                if kind == 'member' and (name in APPEND or name in INSERT):
                    nmut += 1
                    counts['insert'] += 1
                    if reordered:
                        continue     # the path already reordered the sequence (reported as such): its lookup results no longer say what they did
                    args = [unver(a) for a in (ev.value or ())]
                    if name in INSERT:
                        if not args or args[0] != vend(S):
                            if args and args[0] == vbegin(S):
                                ctx.violation(R2, inst, '`%s` inserts at the front: iteration order is no longer first-insertion order' % what, l,
                                              key='%s|%s|%s|insert-not-at-end' % (R2, file, pname))
                                viol = True
                            else:
                                ctx.undecided(R2, inst, '`%s` inserts at a position that is not recognised as the end of the sequence' % what, l)
                                viol = True
                            continue
                        args = args[1:]
                    # R-C10-1
                    lc = seq.lookup_cond(p, upto=ev.conds_n)
                    if lc is None and any(pol is True and unver(c) in (('call', 'std::vector::empty', S), mk_eq(('const', 0), ('call', 'std::vector::size', S)),
                                                                      mk_eq(vbegin(S), vend(S)))
                                          and all(v == se.version_in(ev.ver or {}, S) for v in versions_in(c).get(S, set()))
                                          for c, pol, _ in p.conds[:ev.conds_n]):
                        ctx.ok(R1, inst, '`%s` into a sequence just tested to be empty' % what, l)
                        counts['insert_ok'] += 1
                        continue
                    if lc is None and any(contains(unver(c_), S) for c_, _p, _n in p.conds[:ev.conds_n]):
                        ctx.undecided(R1, inst, '`%s` is preceded by tests of the sequence (%s) that are not recognised as a failed lookup of the inserted key'
                                      % (what, ', '.join(show(c_) for c_, _p, _n in p.conds[:ev.conds_n] if contains(unver(c_), S))[:200]), l)
                        viol = True
                        continue
                    if lc is None:
                        ctx.violation(R1, inst, '`%s` is not preceded by a failed lookup (find_if over the whole sequence == end) on this path: '
                                      'an existing key would be stored twice' % what, l, key='%s|%s|%s|insert-without-failed-lookup' % (R1, file, pname),
                                      path=['conditions decided before the insertion: %s' % ([(show(c), pol) for c, pol, _ in p.conds[:ev.conds_n]] or 'none')])
                        viol = True
                        continue
                    failed, L, keyexpr, K, cnf = lc
                    if not failed:
                        ctx.violation(R1, inst, '`%s` is reached on the edge where the lookup *found* the key' % what, l,
                                      key='%s|%s|%s|insert-when-found' % (R1, file, pname))
                        viol = True
                        continue
                    sv = versions_in(cnf).get(S, set())
                    cur = se.version_in(ev.ver or {}, S)
                    if any(v != cur for v in sv):
                        ctx.violation(R1, inst, 'the sequence is modified between the lookup and `%s`: the failed lookup no longer speaks about the '
                                      'sequence the element is inserted into' % what, l, key='%s|%s|%s|lookup-stale' % (R1, file, pname))
                        viol = True
                        continue
                    if not args and name == 'emplace_back' and keyexpr[:2] == ('field', ('lparam', 0)):
                        # a default-constructed element is appended; its key is KEY() until a later statement assigns it
                        back = ('call', 'std::vector::back', S)
                        kst = None
                        for k2, n2, e2 in evs:
                            if k2 != 'store' or e2 is ev:
                                continue
                            lhs2 = e2.nf if e2.kind == 'store' else e2.place
                            if lhs2 == ('field', back, keyexpr[2]) and path_pos(p, e2) > path_pos(p, ev):
                                kst = e2
                                break
                        if kst is None:
                            ctx.violation(R1, inst, '`%s` appends a default-constructed element: the lookup searched for `%s` but the inserted element has '
                                          'the key KEY()' % (what, show(K)), l, key='%s|%s|%s|insert-other-key' % (R1, file, pname))
                            viol = True
                            continue
                        kval = unver(kst.value if kst.kind == 'store' else (kst.value[0] if kst.value else None))
                        consumed.add(id(kst))
                        if kval != unver(K):
                            ctx.violation(R1, inst, 'the lookup searched for `%s` but the appended element is given the key `%s`' % (show(K), show(kval)),
                                          tu.loc(kst.node), key='%s|%s|%s|insert-other-key' % (R1, file, pname))
                            viol = True
                            continue
                        kt = (seq.rec.get('targs') or [{}])[0]
                        if kt.get('trivially_copyable'):
                            ctx.ok(R1, inst, '`%s` then `%s` only after find_if(%s == %s) failed; assigning a %s cannot throw'
                                   % (what, tu.show(kst.node), show(keyexpr), show(K), kt.get('t')), l)
                            counts['insert_ok'] += 1
                        else:
                            ctx.violation(R1, inst, 'the new entry is appended under the default key (`%s`) and only then given the looked-up key (`%s`): the '
                                          'insertion is not atomic - if copying the %s key throws, a phantom entry with key KEY() stays in the map '
                                          '(size, contains, at, iteration all see it)' % (what, tu.show(kst.node), kt.get('t', 'KEY')), l,
                                          key='%s|%s|%s|insert-not-atomic' % (R1, file, pname),
                                          path=['failed lookup of %s' % show(K), 'append at %s: %s' % (l, what),
                                                'key assigned afterwards at %s: %s' % (tu.loc(kst.node), tu.show(kst.node))])
                            viol = True
                        continue
                    if not args:
                        ctx.undecided(R1, inst, 'cannot see the inserted element of `%s`' % what, l)
                        viol = True
                        continue
                    ek = seq.elem_key(args[0], keyexpr) if name in ('push_back', 'insert') else \
                        seq.elem_key(('construct', 'std::pair<>') + tuple(args), keyexpr) if len(args) == 2 else seq.elem_key(args[0], keyexpr)
                    if ek is None:
                        ctx.undecided(R1, inst, 'cannot determine the key of the inserted element `%s`' % show(args[0]), l)
                        viol = True
                        continue
                    if ek != unver(K):
                        ctx.violation(R1, inst, 'the lookup searched for `%s` but the inserted element has key `%s`' % (show(K), show(ek)), l,
                                      key='%s|%s|%s|insert-other-key' % (R1, file, pname))
                        viol = True
                        continue
                    ctx.ok(R1, inst, '`%s` only after find_if(%s == %s) failed' % (what, show(keyexpr), show(K)), l)
                    counts['insert_ok'] += 1
                elif kind == 'member' and name in ORDER_OK:
                    nmut += 1
                    if name == 'erase':
                        args = [unver(a) for a in (ev.value or ())]
                        if len(args) == 2 and compacts and args[0] == compacts[-1][0] and args[1] == vend(S):
                            compacts[-1][1] = True
                elif kind == 'member' and name == 'resize':
                    nmut += 1
                    args = [unver(a) for a in (ev.value or ())]
                    okr = False
                    if compacts and args:
                        want = ('call', 'std::distance', None, vbegin(S), compacts[-1][0])
                        if args[0] == want:
                            compacts[-1][1] = True
                            okr = True
                    if not okr:
                        ctx.undecided(R2, inst, '`%s`: resize to a size that is not the distance to a stable_partition / remove_if result' % what, l)
                        viol = True
                elif kind == 'member':
                    nmut += 1
                    ctx.undecided(R2, inst, '`%s`: mutator `%s` is not in the vocabulary of order-preserving / reordering operations' % (what, name), l)
                    viol = True
                elif kind == 'member-sub':
                    pass       # operation on an element (value update), not on the sequence
                elif kind == 'algo':
                    if name in ALGO_READ or name.startswith('std::make_'):
                        continue
                    nmut += 1
                    if name in ALGO_COMPACT:
                        compacts.append([unver(ev.nf), False, ev, name])
                        vals = [unver(v) for v in ev.value]
                        if name == 'loop::shift_down' and seq.match_lookup(vals[0]) is not None and vals[1] == vend(S):
                            pass       # from the position a search over the whole sequence returned up to the end
                        elif vals[0] != vbegin(S) or vals[1] != vend(S):
                            ctx.undecided(R2, inst, '`%s` does not run over the whole sequence' % what, l)
                            viol = True
                    elif name == 'std::move_backward(overlap-down)':
                        ctx.violation(R2, inst, SHIFT_WRONG % what, l, key='%s|%s|%s|shift-wrong-direction' % (R2, file, pname))
                        viol = True
                    elif name in ALGO_REORDER:
                        reordered = True
                        ctx.violation(R2, inst, '`%s` reorders the sequence: iteration / at_index no longer follow insertion order' % what, l,
                                      key='%s|%s|%s|reorders:%s' % (R2, file, pname, last(name)))
                        viol = True
                    else:
                        ctx.undecided(R2, inst, '`%s`: algorithm `%s` receives mutable iterators of the sequence and is not in the vocabulary' % (what, name), l)
                        viol = True
                elif kind == 'store':
                    lhs = ev.nf if ev.kind == 'store' else ev.place
                    if seq.is_elem(lhs):
                        nmut += 1
                        # recognised wrong: the element is overwritten with the last one (swap-with-last removal); any other element store
                        # (e.g. a shift-down inside a loop that was not recognised as a whole) is not decided here
                        v_ = ev.value[0] if (ev.kind != 'store' and ev.value) else ev.value
                        v_ = unver(v_) if isinstance(v_, tuple) else None
                        back_ = (('call', 'std::vector::back', S), ('deref', mk_comm('add', [vend(S), ('const', -1)])),
                                 ('elem', S, mk_comm('add', [('call', 'std::vector::size', S), ('const', -1)])))
                        if v_ in back_:
                            ctx.violation(R2, inst, '`%s` overwrites a whole element with the last one (swap-with-last style removal): the order of the '
                                          'remaining elements changes' % what, l, key='%s|%s|%s|element-overwritten' % (R2, file, pname))
                        else:
                            ctx.undecided(R2, inst, '`%s` overwrites a whole element with `%s`; whether the order of the remaining elements is kept is not '
                                          'decided (not a recognised compaction)' % (what, show(v_) if v_ is not None else '?'), l)
                        viol = True
                    elif isinstance(lhs, tuple) and lhs[0] == 'field' and seq.is_elem(lhs[1]) and lhs[2] == 'first':
                        nmut += 1
                        ctx.undecided(R2, inst, '`%s` overwrites the key of a stored element' % what, l)
                        viol = True
            for c in compacts:
                if not c[1]:
                    ctx.violation(R2, inst, '`%s` is not followed by a truncation at the iterator it returns: the removed elements stay in the sequence'
                                  % (tu.show(c[2].node) if not getattr(c[2], 'idiom', False) else
                                     'the hand-written shift-down loop (it acts as %s and leaves its end of the kept range in the write cursor)' % c[3]),
                                  tu.loc(c[2].node), key='%s|%s|%s|compact-without-truncate' % (R2, file, pname))
                    viol = True
        counts['fn'] += 1
        if not viol:
            ctx.ok(R2, inst, '%d path(s), %d sequence mutation(s), all order-preserving' % (len(paths), nmut), loc, nontrivial=bool(nmut))
            counts['fn_ok'] += 1


# ============================================================================================
#  FlatMap: R-C10-3, R-C10-4
# ============================================================================================
def canon_calls(nf):
    """drop the `{template arguments}` of call names: overloads differing in constness instantiate helpers for iterator /
    const_iterator"""
    if isinstance(nf, frozenset):
        return frozenset(canon_calls(x) for x in nf)
    if isinstance(nf, tuple):
        if len(nf) > 1 and nf[0] == 'call' and isinstance(nf[1], str):
            return ('call', base_name(nf[1])) + tuple(canon_calls(x) for x in nf[2:])
        return tuple(canon_calls(x) for x in nf)
    return nf


def summary_sig(se, seq, f):
    """hashable signature of a function's behaviour: per path (conditions, sequence effects, result)"""
    paths = paths_of(se, f)
    sig = set()
    for p in paths:
        conds = frozenset((unver(c), pol) for c, pol, _ in p.conds)
        effs = tuple((k, base_name(n), tuple(unver(a) for a in (ev.value or ())) if not (k == 'store' and ev.kind == 'store') else (unver(ev.nf), unver(ev.value)))
                     for k, n, ev in seq.seq_events(p, False) if not (k == 'algo' and n in ALGO_READ))
        t = p.term
        res = (t[0], unver(t[1]) if t[0] == 'return' and t[1] is not None else (t[1] if t[0] == 'throw' else None))
        sig.add(canon_calls((conds, effs, res)))
    return frozenset(sig)


def sig_show(sig):
    out = []
    for conds, effs, res in sorted(sig, key=repr):
        c = ' && '.join(('' if pol else '!') + show(x) for x, pol in sorted(conds, key=repr)) or 'always'
        e = '; '.join('%s(%s)' % (n, ', '.join(show(a) for a in args)) for k, n, args in effs)
        r = '%s %s' % (res[0], show(res[1]) if isinstance(res[1], tuple) else (res[1] or ''))
        out.append('[%s] %s => %s' % (c, e, r))
    return ' | '.join(out)


def canon_method(name):
    return {'cbegin': 'begin', 'cend': 'end', 'crbegin': 'rbegin', 'crend': 'rend'}.get(name, name)


def report_search_defects(ctx, tu, se, rule, tag):
    """a helper the lookups go through was recognised as a counted / unrolled linear search that does not compare every element"""
    for fid, (fn, text) in sorted(se.search_defects.items()):
        ctx.violation(rule, inst_name(fn) + tag, 'the search helper does not look at every element: %s. A key stored there is reported absent '
                      '(contains false, at() throws) and operator[] stores it a second time' % text, tu.fn_loc(fn),
                      key='%s|%s|%s|search-skips-elements' % (rule, tu.fn_file(fn), pattern_name(tu, fn)))


def check_flatmap(ctx, tu, tag=''):
    R3, R4 = 'R-C10-3', 'R-C10-4'
    ctx.describe('R-C10-1', 'every insertion into the sequence is reached only on the failed edge of a lookup of the key being inserted, with no '
                            'change of the sequence in between (keys stay unique)')
    ctx.describe('R-C10-2', 'the sequence is changed only by order-preserving operations (append, stable_partition/remove_if + truncation, erase, '
                            'clear, reserve); reordering algorithms and whole-element overwrites are rejected')
    ctx.describe(R3, 'FlatMap: at() throws std::out_of_range exactly when the lookup fails and returns the found .second otherwise; operator[] '
                     'returns the found value or appends (key, VALUE()); contains = lookup != end; erase removes exactly the matching keys; '
                     'at_index/size/empty/clear/reserve forward to the sequence')
    ctx.describe(R4, 'const / non-const siblings and begin/cbegin-style accessors have identical path summaries')
    se = mk_se(tu)
    recs = [r for r in tu.records.values() if r.get('tmpl') == FM and not r.get('lambda')]
    counts = dict(insert=0, insert_ok=0, fn=0, fn_ok=0)
    n3 = n4 = 0
    nrec = 0
    for r in sorted(recs, key=lambda r: r['type']):
        fns = [f for f in tu.functions.values() if f.get('recid') == r['id'] and not f['dep'] and tu.cfg(f) is not None
               and not f.get('implicit') and not f.get('ctor') and not f.get('dtor')]
        if not fns:
            continue
        vf = [f for f in r['fields'] if f['ct'].startswith('std::vector<std::pair<')]
        if len(vf) != 1:
            ctx.broken('R-C10-1: %s does not have exactly one vector-of-pairs member' % r['type'])
            continue
        nrec += 1
        S = ('field', THIS, vf[0]['name'])
        seq = Seq(tu, se, r, S)
        fns.sort(key=lambda f: (f['l'], f['fty']))
        check_sequence_rules(ctx, tu, se, seq, fns, None, tag, counts)
        file = tu.fn_file(fns[0])
        keyexpr0 = ('field', ('lparam', 0), 'first')
        byname = {}
        role_ok = set()
        for f in fns:
            byname.setdefault(last(strip_targs(f['q'])), []).append(f)
        for f in fns:
            name = last(strip_targs(f['q']))
            inst = inst_name(f) + tag
            pname = pattern_name(tu, f)
            loc = tu.fn_loc(f)
            try:
                paths = se.paths(f)
            except Unsupported as e:
                ctx.undecided(R3, inst, str(e), loc)
                continue
            p0 = ('param', 0, f['params'][0].get('name') or '') if f.get('params') else None
            probs, und = [], []

            def want_lookup(L, K, kx):
                report_mismatch(lookup_mismatch(kx, K, keyexpr0, p0), probs, und)

            def no_effects(p, what):
                evs = [x for x in seq.seq_events(p, bool(f.get('const'))) if not (x[0] == 'algo' and x[1] in ALGO_READ)]
                known = [x for x in evs if not (x[0] == 'algo' and x[1] not in ALGO_COMPACT and x[1] not in ALGO_REORDER)]
                if known:
                    probs.append(('unexpected-mutation', '%s modifies the sequence: `%s`' % (what, tu.show(known[0][2].node))))
                elif evs:
                    und.append(('unexpected-mutation', '%s hands mutable iterators of the sequence to `%s`, whose effect is not known'
                                % (what, tu.show(evs[0][2].node))))

            shape = None
            if name == 'at' and paths and all(seq.lookup_cond(p_) is None for p_ in paths):
                shape = se.function_search_shape(f)     # at() written as its own search loop
            if shape is None:
                try:
                    paths = paths_of(se, f)
                except Unsupported:
                    pass
            # a member other than erase that reorders the stored elements: that is the finding; what such a path does afterwards with
            # iterators obtained before the reordering is a consequence and is not judged against the role
            if name != 'erase' and shape is None:
                reo = [(p_, x) for p_ in paths for x in seq.seq_events(p_, bool(f.get('const'))) if x[0] == 'algo' and x[1] in ALGO_REORDER]
                if reo:
                    x = reo[0][1]
                    probs.append(('unexpected-mutation', '%s%s reorders the stored elements (`%s`): iteration / at_index no longer follow first-insertion '
                                  'order, and references handed out earlier now name other keys' %
                                  (name, '()' if not name.startswith('operator') else '', tu.show(x[2].node))))
                    keep_ = {id(p_) for p_, _x in reo}
                    paths = [p_ for p_ in paths if id(p_) not in keep_]
            if name == 'at' and shape is not None:
                n3 += 1
                strip_copy = lambda x: se._subst(x, {}) if False else x

                def uncopy(x):
                    # a converted copy of an element has the element's members: transparent for comparisons only
                    if isinstance(x, tuple):
                        if len(x) == 3 and x[0] == 'construct' and str(x[1]).startswith('std::pair<'):
                            return uncopy(x[2])
                        return tuple(uncopy(y) for y in x)
                    return x
                if shape['first'] != vbegin(S) or shape['last'] != vend(S):
                    und.append(('search-range', 'at() searches [%s, %s), not the whole sequence' % (show(shape['first']), show(shape['last']))))
                b_ = uncopy(shape['body'])
                if isinstance(b_, tuple) and b_[0] == 'eq':
                    a_, k_ = (b_[1], b_[2]) if contains(b_[1], ('lparam', 0)) else (b_[2], b_[1])
                    report_mismatch(lookup_mismatch(a_, k_, keyexpr0, p0), probs, und)
                else:
                    und.append(('search-predicate', 'the search predicate `%s` is not a key comparison' % show(shape['body'])))
                if shape['end'][0] != 'throw':
                    probs.append(('no-throw', 'when no element matches at() does not throw (it %ss)' % shape['end'][0]))
                elif shape['end'][1] != 'std::out_of_range':
                    probs.append(('wrong-exception', 'when no element matches at() throws %s instead of std::out_of_range' % shape['end'][1]))
                mk_, mv_ = shape['match']
                want_m = ('field', ('deref', ('cursor',)), 'second')
                if mk_ != 'return':
                    probs.append(('throws-when-found', 'at() does not return on the path where the key was found'))
                elif mv_ != want_m:
                    copies = find_all(mv_, lambda t: len(t) == 3 and t[0] == 'construct' and contains(t[2], ('cursor',)))
                    if uncopy(mv_) == want_m and copies and f['fty'].split('(')[0].strip().endswith('&'):
                        probs.append(('returns-reference-to-temporary',
                                      'at() returns a reference to `.second` of a temporary `%s` converted from the stored element (the loop variable binds '
                                      'to a converted copy, not to the element): the reference dangles when the loop body is left and never designates '
                                      'the stored value' % copies[0][1]))
                    else:
                        (und if has_unknown(mv_) or copies else probs).append(
                            ('wrong-element', 'the found path returns `%s` instead of the found element\'s .second' % show(mv_)))
                for p in paths:
                    no_effects(p, 'at()')
            elif name == 'at':
                n3 += 1
                for p in paths:
                    lc = seq.lookup_cond(p)
                    if lc is None:
                        rv = unver(p.term[1]) if p.term[0] == 'return' and p.term[1] is not None else None
                        msg = ('a path reaches `%s` without comparing the lookup result with end()'
                               % (p.term[0] + (' ' + show(p.term[1]) if p.term[0] == 'return' and p.term[1] is not None else '')))
                        # recognised wrong: an element of the sequence (the lookup result, back(), [i]) is used untested
                        if rv is not None and not has_unknown(rv) and contains(rv, S) and not any(contains(unver(c_), S) for c_, _p, _n in p.conds):
                            probs.append(('unguarded', msg))
                        else:
                            und.append(('unguarded', msg))
                        continue
                    failed, L, kx, K, _ = lc
                    want_lookup(L, K, kx)
                    no_effects(p, 'at()')
                    if failed:
                        if p.term[0] != 'throw':
                            probs.append(('no-throw', 'the failed-lookup path does not throw (it %ss)' % p.term[0]))
                        elif p.term[1] != 'std::out_of_range':
                            probs.append(('wrong-exception', 'the failed-lookup path throws %s instead of std::out_of_range' % p.term[1]))
                    else:
                        if p.term[0] == 'throw':
                            probs.append(('throws-when-found', 'at() throws on the path where the key was found'))
                        elif p.term[0] != 'return' or unver(p.term[1]) != ('field', ('deref', L), 'second'):
                            rv = unver(p.term[1]) if p.term[0] == 'return' and p.term[1] is not None else None
                            (und if rv is None or has_unknown(rv) else probs).append(
                                ('wrong-element', 'the found path returns `%s` instead of the found element\'s .second' % (show(rv) if rv else p.term[0])))
            elif name == 'operator[]':
                n3 += 1
                for p in paths:
                    lc = seq.lookup_cond(p)
                    if lc is None:
                        rv = unver(p.term[1]) if p.term[0] == 'return' and p.term[1] is not None else None
                        if rv is not None and not has_unknown(rv) and contains(rv, S) and not any(contains(unver(c_), S) for c_, _p, _n in p.conds):
                            probs.append(('unguarded', 'a path returns `%s` without comparing the lookup result with end()' % show(rv)))
                        else:
                            und.append(('unguarded', 'a path does not compare the lookup result with end()'))
                        continue
                    failed, L, kx, K, _ = lc
                    want_lookup(L, K, kx)
                    if not failed:
                        no_effects(p, 'operator[] (key found)')
                        rv = unver(p.term[1]) if p.term[0] == 'return' and p.term[1] is not None else None
                        if rv != ('field', ('deref', L), 'second'):
                            (und if rv is None or has_unknown(rv) else probs).append(
                                ('wrong-element', 'the found path returns `%s` instead of the found element\'s .second' % (show(rv) if rv else p.term[0])))
                    else:
                        evs = [x for x in seq.seq_events(p, bool(f.get('const'))) if not (x[0] == 'algo' and x[1] in ALGO_READ)
                               and not is_elem_field_store(seq, x)]     # member updates of an element are judged by R-C10-1 / R-C10-2
                        apps = [x for x in evs if appended_elem(seq, x) is not None]
                        if f.get('const'):
                            if p.term[0] != 'throw':
                                und.append(('const-index', 'const operator[] on a missing key neither throws nor can insert'))
                            continue
                        if len(apps) != 1 or len(evs) != 1:
                            if len(apps) > 1 or not evs:
                                probs.append(('no-single-append', 'the failed-lookup path appends %d elements, expected exactly one' % len(apps)))
                            else:
                                und.append(('no-single-append', 'the failed-lookup path performs sequence operation(s) %s; not recognised as one append'
                                            % ', '.join('`%s`' % tu.show(x[2].node) for x in evs)))
                            continue
                        ael = appended_elem(seq, apps[0])
                        arg = ael[0] if ael else None
                        val = seq.elem_key(arg, ('field', ('lparam', 0), 'second')) if apps[0][1] in ('push_back', 'insert') else \
                            (ael[1] if len(ael) == 2 else ('construct', 'VALUE') if len(ael) == 0 else None)
                        if val is None:
                            und.append(('inserted-value', 'cannot see the value inserted for a missing key'))
                        elif not (val == ('const', 0) or (val[0] == 'construct' and len(val) == 2) or val == ('str', '""')):
                            und.append(('inserted-value', 'the value inserted for a missing key is `%s`, not VALUE()' % show(val)))
                        rv = p.term[1] if p.term[0] == 'return' else None
                        want = ('field', ('call', 'std::vector::back', S), 'second')
                        # values[i] with i the position of the failed lookup = the old size = the index of the element just appended
                        at_old_end = ('field', ('elem', S, ('call', 'std::distance', None, vbegin(S), L)), 'second')
                        if rv is not None and unver(rv) == at_old_end:
                            pass
                        elif rv is not None and unver(rv) == ('field', ('deref', L), 'second'):
                            probs.append(('stale-iterator',
                                          'after appending, operator[] returns `%s`: it goes through the iterator the lookup returned before the '
                                          'insertion. That iterator compared equal to end() and is not refreshed; push_back invalidates it when the '
                                          'vector reallocates (and the past-the-end iterator in any case), so the reference is not the new element\'s '
                                          '.second unless spare capacity happens to be left (a reserve() elsewhere does not make this valid)' % show(rv)))
                        elif rv is None or unver(rv) != want:
                            (und if rv is None or has_unknown(unver(rv)) else probs).append(
                                ('wrong-element', 'after appending, operator[] returns `%s` instead of the new last element\'s .second'
                                 % (show(rv) if rv is not None else p.term[0])))
                        else:
                            sv = versions_in(rv).get(S, set())
                            if any(v != se.version_in(p.ver, S) for v in sv):
                                probs.append(('wrong-element', 'the returned reference is taken before the element is appended'))
            elif name == 'contains':
                n3 += 1
                for p in paths:
                    no_effects(p, 'contains()')
                    rv = unver(p.term[1]) if p.term[0] == 'return' and p.term[1] is not None else None
                    okc = False
                    if isinstance(rv, tuple) and rv and rv[0] == 'not' and rv[1][0] == 'eq':
                        for x, y in ((rv[1][1], rv[1][2]), (rv[1][2], rv[1][1])):
                            if y == vend(S) and seq.match_lookup(x):
                                kx, K = seq.match_lookup(x)
                                want_lookup(x, K, kx)
                                okc = True
                    lc = seq.lookup_cond(p)
                    if not okc and lc is not None and isinstance(rv, tuple) and rv[0] == 'const':
                        # a lookup (a call, or contains' own early-exit loop over the elements) decided on this path, and a constant answer
                        failed, L, kx, K, _ = lc
                        want_lookup(L, K, kx)
                        if (rv[1] == 0) == bool(failed):
                            okc = True
                        else:
                            probs.append(('inverted', 'contains() returns %s on the path where the key was %s' % (
                                'true' if rv[1] else 'false', 'not found' if failed else 'found')))
                            continue
                    if not okc and isinstance(rv, tuple) and len(rv) == 6 and rv[:5] == ('call', 'std::any_of', None, vbegin(S), vend(S)) \
                            and isinstance(rv[5], tuple) and rv[5][0] == 'pred' and rv[5][1] == mk_eq(keyexpr0, p0):
                        okc = True
                    if not okc:
                        if isinstance(rv, tuple) and rv and rv[0] == 'eq' and vend(S) in rv[1:]:
                            probs.append(('inverted', 'contains() returns `%s` (true when the key is absent)' % show(rv)))
                        else:
                            (und if rv is None or has_unknown(rv) or len(paths) > 1 else probs).append(
                                ('wrong-value', 'contains() returns `%s` instead of lookup(key) != end' % (show(rv) if rv else p.term[0])))
            elif name == 'erase':
                n3 += 1
                for p in paths:
                    evs = [x for x in seq.seq_events(p, False) if not (x[0] == 'algo' and x[1] in ALGO_READ)]
                    compacts = [x for x in evs if x[0] == 'algo' and x[1] in ALGO_COMPACT]
                    lc = seq.lookup_cond(p)
                    if compacts:
                        kind, aname, ev = compacts[0]
                        vals = [unver(v) for v in ev.value]
                        pr = vals[2] if len(vals) > 2 else None
                        mode = ALGO_COMPACT[aname]
                        if mode == 'value' or not (isinstance(pr, tuple) and pr[0] == 'pred'):
                            und.append(('erase-predicate', 'predicate of `%s` not recognised' % tu.show(ev.node)))
                            continue
                        if aname == 'loop::shift_down':
                            m_ = seq.match_lookup(vals[0])
                            if m_ is None:
                                und.append(('erase-shape', 'the compaction loop does not start at the result of a lookup of the key'))
                                continue
                            want_lookup(vals[0], m_[1], m_[0])      # the element dropped unconditionally is the one the lookup found
                        body = pr[1]
                        neg = False
                        if body[0] == 'not':
                            body, neg = body[1], True
                        if body[0] != 'eq':
                            und.append(('erase-predicate', 'predicate `%s` is not a comparison of the key' % show(pr)))
                            continue
                        a, b = body[1], body[2]
                        if contains(b, ('lparam', 0)):
                            a, b = b, a
                        if a != keyexpr0:
                            probs.append(('erase-predicate-key', 'erase compares `%s` instead of the key member `.first`' % show(a)))
                        elif b != p0:
                            probs.append(('erase-predicate-key', 'erase compares the key with `%s` instead of the argument' % show(b)))
                        # stable_partition keeps elements for which the predicate holds: keep = (first != key)
                        # remove_if drops elements for which the predicate holds: drop = (first == key)
                        elif (mode == 'keep') != neg:
                            probs.append(('erase-predicate-polarity', '`%s` with predicate `%s` removes the elements whose key is *different* from the argument'
                                          % (last(aname) if aname != 'loop::shift_down' else 'the shift-down loop, which keeps the elements satisfying its test,',
                                             show(pr))))
                        others = [x for x in evs if x is not compacts[0] and not (x[0] == 'member' and x[1] in ('resize', 'erase'))]
                        if others:
                            probs.append(('unexpected-mutation', 'erase also performs `%s`' % tu.show(others[0][2].node)))
                    elif lc is None and seq.rev_lookup_cond(p) is not None:
                        rc_ = seq.rev_lookup_cond(p)
                        want_lookup(rc_[1], rc_[3], rc_[2])
                        seq.judge_reverse_erase(p, evs, tu, 'erase()', probs, und)
                    elif lc is not None:
                        failed, L, kx, K, _ = lc
                        want_lookup(L, K, kx)
                        if failed:
                            no_effects(p, 'erase() of a missing key')
                        else:
                            wrongdir = [x for x in evs if x[0] == 'algo' and x[1] == 'std::move_backward(overlap-down)']
                            unk_ = [x for x in evs if x[0] == 'algo' and x[1] not in ALGO_COMPACT and x[1] not in ALGO_REORDER]
                            if wrongdir:
                                probs.append(('shift-wrong-direction', SHIFT_WRONG % tu.show(wrongdir[0][2].node)))
                            elif unk_:
                                und.append(('erase-shape', 'erase of a present key hands the sequence to `%s`, whose effect is not known'
                                            % tu.show(unk_[0][2].node)))
                            elif len(evs) != 1 or evs[0][1] != 'erase' or [unver(a) for a in evs[0][2].value] != [L]:
                                probs.append(('erase-not-found-iterator', 'erase of a present key does not erase exactly the found iterator'))
                    else:
                        single = [x for x in evs if x[0] == 'member' and x[1] == 'erase' and len(x[2].value or ()) == 1
                                  and seq.match_lookup(unver(x[2].value[0])) is not None]
                        if single and len(evs) == 1 and not any(contains(unver(c_), S) for c_, _p, _n in p.conds):
                            m_ = seq.match_lookup(unver(single[0][2].value[0]))
                            want_lookup(unver(single[0][2].value[0]), m_[1], m_[0])
                            probs.append(('erase-unguarded',
                                          '`%s` erases the result of the lookup without comparing it with end(): for a key that is not in the map this '
                                          'is vector::erase(end()), which is undefined (erasing an absent key must be a no-op)' % tu.show(single[0][2].node)))
                        else:
                            und.append(('erase-shape', 'erase is neither stable_partition/remove_if + truncation nor a guarded single-iterator erase'))
            elif name in ('clear', 'reserve'):
                n3 += 1
                for p in paths:
                    evs = [x for x in seq.seq_events(p, False) if not (x[0] == 'algo' and x[1] in ALGO_READ)]
                    wantargs = [] if name == 'clear' else [p0]
                    if len(evs) != 1 or evs[0][0] != 'member' or evs[0][1] != name or [unver(a) for a in evs[0][2].value] != wantargs:
                        probs.append(('wrong-forward', '%s() does not forward to values.%s(%s)' % (name, name, show(p0) if wantargs else '')))
            elif name in ('size', 'empty', 'at_index'):
                n3 += 1
                for p in paths:
                    no_effects(p, name + '()')
                    rv = unver(p.term[1]) if p.term[0] == 'return' and p.term[1] is not None else None
                    if name == 'at_index':
                        okv = rv in (('call', 'std::vector::at', S, p0), ('elem', S, p0))
                    elif name == 'size':
                        okv = rv == ('call', 'std::vector::size', S)
                    else:
                        okv = rv in (('call', 'std::vector::empty', S), mk_eq(('const', 0), ('call', 'std::vector::size', S)))
                    if not okv:
                        (und if rv is None or has_unknown(rv) else probs).append(
                            ('wrong-value', '%s() returns `%s`' % (name, show(rv) if rv else p.term[0])))
            elif canon_method(name) in ('begin', 'end', 'rbegin', 'rend'):
                n3 += 1
                for p in paths:
                    no_effects(p, name + '()')
                    rv = unver(p.term[1]) if p.term[0] == 'return' and p.term[1] is not None else None
                    if rv != ('call', 'std::vector::' + canon_method(name), S):
                        (und if rv is None or has_unknown(rv) else probs).append(
                            ('wrong-value', '%s() returns `%s` instead of values.%s()' % (name, show(rv) if rv else p.term[0], canon_method(name))))
            elif name == 'lookup':
                n3 += 1
                for p in paths:
                    no_effects(p, 'lookup()')
                    rv = p.term[1] if p.term[0] == 'return' else None
                    m = seq.match_lookup(rv) if rv is not None else None
                    if m is None:
                        (und if rv is None or has_unknown(unver(rv)) else probs).append(
                            ('lookup-shape', 'lookup() returns `%s`, not find_if over the whole sequence with an equality predicate on the key'
                             % (show(rv) if rv is not None else p.term[0])))
                    else:
                        want_lookup(rv, m[1], m[0])
            else:
                continue
            if probs:
                for kind, why in sorted(set(probs)):
                    ctx.violation(R3, inst, why, loc, key='%s|%s|%s|%s' % (R3, file, pname, kind))
            elif und:
                for kind, why in sorted(set(und)):
                    ctx.undecided(R3, inst, why, loc)
            else:
                role_ok.add(id(f))
                ctx.ok(R3, inst, sig_show(summary_sig(se, seq, f))[:300], loc)
        # ---- byte-wise key comparison: equality of the object representation is key equality only for some key types
        if seq.bytewise:
            kt = (r.get('targs') or [{}])[0]
            inst = '%s lookup predicate%s' % (short(r['type']), tag)
            lf = byname.get('lookup', fns)[0]
            full = all(isinstance(n_, tuple) and ((n_[0] == 'sizeof' and n_[2] == kt.get('size')) or n_ == ('const', kt.get('size'))) for _, _, n_ in seq.bytewise)
            n3 += 1
            if not full:
                ctx.undecided(R3, inst, 'keys are compared with memcmp over a length that is not sizeof(KEY)', tu.fn_loc(lf))
            elif kt.get('t') in INTEGRAL_KEYS or str(kt.get('t', '')).endswith('*'):
                ctx.ok(R3, inst, 'keys of type %s are compared as raw bytes: for an integer / pointer type that is operator==' % kt.get('t'), tu.fn_loc(lf))
            elif kt.get('t') in FLOAT_KEYS:
                ctx.violation(R3, inst, 'the lookup compares keys of type %s with memcmp over their bytes: that is not operator== for a floating-point key '
                              '(+0.0 == -0.0 but the bytes differ; a NaN equals itself bytewise): a key written as 0.0 is not found as -0.0 and is '
                              'stored a second time, while erase() still compares with operator==' % kt.get('t'), tu.fn_loc(lf),
                              key='%s|%s|%s|lookup-bytewise-comparison' % (R3, file, pattern_name(tu, lf)))
            else:
                ctx.undecided(R3, inst, 'keys of type %s are compared as raw bytes; whether that equals its operator== (padding, user-defined '
                              'comparison) is not decided' % kt.get('t'), tu.fn_loc(lf))
        # ---- R-C10-4 siblings
        groups = {}
        for f in fns:
            name = canon_method(last(strip_targs(f['q'])))
            ptypes = tuple(p['ct'] for p in f.get('params', []))
            groups.setdefault((name, ptypes), []).append(f)
        for (name, ptypes), fs in sorted(groups.items()):
            if len(fs) < 2:
                continue
            n4 += 1
            inst = '%s::%s(%s) x%d%s' % (short(r['type']), name, ', '.join(ptypes), len(fs), tag)
            try:
                sigs = [(f, summary_sig(se, seq, f)) for f in fs]
            except Unsupported as e:
                ctx.undecided(R4, inst, str(e), tu.fn_loc(fs[0]))
                continue
            base = sigs[0]
            diff = [x for x in sigs[1:] if x[1] != base[1]]
            if diff and any(find_all(tuple(sg), lambda t: t and t[0] in ('var', 'opaque')) for _f, sg in sigs):
                if all(id(f_) in role_ok for f_, _sg in sigs):
                    ctx.ok(R4, inst, 'written differently (one as its own loop), each decided to conform to the same specification (R-C10-3)', tu.fn_loc(fs[0]))
                else:
                    ctx.undecided(R4, inst, 'the summaries contain local state that cannot be compared across the overloads', tu.fn_loc(fs[0]))
            elif diff:
                g = diff[0]
                ctx.violation(R4, inst, '`%s` and `%s` disagree: {%s} vs {%s}' % (inst_name(base[0]), inst_name(g[0]), sig_show(base[1])[:300], sig_show(g[1])[:300]),
                              tu.fn_loc(g[0]), key='%s|%s|%s::%s|siblings-disagree' % (R4, file, short(r['q']), name))
            else:
                ctx.ok(R4, inst, 'identical summaries: %s' % sig_show(base[1])[:200], tu.fn_loc(fs[0]))
    report_search_defects(ctx, tu, se, 'R-C10-3', tag)
    return dict(nrec=nrec, n3=n3, n4=n4, counts=counts)


# ============================================================================================
#  ParameterizedObject: R-C10-5 (+ R-C10-1/2 through the generic rules)
# ============================================================================================
def check_paramobj(ctx, tu, tag=''):
    R5 = 'R-C10-5'
    ctx.describe(R5, 'ParameterizedObject: findParam(name,false) never inserts and yields the found parameter or null; findParam(name,true) never '
                     'yields null and adds only a parameter of that name; hasParam/getParam use the non-inserting form; getParam sets query and '
                     'calls get<T>() exactly under param != null && is<T>(), else returns the default untouched; setParam stores into the '
                     'found-or-added parameter; removeParam erases only the found iterator; resetAllParamQueryStatus clears every element')
    se = mk_se(tu)
    rec = [r for r in tu.records.values() if r['q'] == PO]
    prec = [r for r in tu.records.values() if r['q'] == PARAM]
    if not rec or not prec:
        ctx.broken('R-C10-5: record %s / %s not found' % (PO, PARAM))
        return dict(n5=0, counts=dict(insert=0, insert_ok=0, fn=0, fn_ok=0))
    r, pr = rec[0], prec[0]
    vf = [f for f in r['fields'] if f['ct'].startswith('std::vector<std::shared_ptr<')]
    if len(vf) != 1:
        ctx.broken('R-C10-5: %s does not have exactly one vector-of-shared_ptr member' % PO)
        return dict(n5=0, counts=dict(insert=0, insert_ok=0, fn=0, fn_ok=0))
    S = ('field', THIS, vf[0]['name'])
    seq = Seq(tu, se, r, S)
    anyf = [f for f in pr['fields'] if f['ct'] == ANY]
    boolf = [f for f in pr['fields'] if f['ct'] in INT_WIDTH]
    strf = [f for f in pr['fields'] if f['ct'].startswith('std::basic_string<')]
    if len(anyf) != 1 or len(strf) != 1 or not boolf:
        ctx.broken('R-C10-5: %s is expected to have one Any, one string and a bool / integer query-status member' % PARAM)
        return dict(n5=0, counts=dict(insert=0, insert_ok=0, fn=0, fn_ok=0))
    if len(boolf) > 1:
        # several integer-like members (a cached hash, a counter ...): the query status is the one getParam / the reset write
        written = set()
        for f_ in tu.functions.values():
            if f_.get('rec') == PO and not f_['dep'] and last(strip_targs(f_['q'])) in ('getParam', 'resetAllParamQueryStatus') and tu.body(f_) is not None:
                for y in tu.walk(tu.body(f_)):
                    lhs_ = None
                    if y.get('kind') in ('BinaryOperator', 'CompoundAssignOperator') and (y.get('opcode') == '=' or y.get('kind') == 'CompoundAssignOperator'):
                        lhs_ = tu.strip(tu.kids(y)[0], casts=True)
                    elif y.get('kind') == 'UnaryOperator' and y.get('opcode') in ('++', '--'):
                        lhs_ = tu.strip(tu.kids(y)[0], casts=True)
                    if lhs_ is not None and lhs_.get('kind') == 'MemberExpr' and lhs_.get('name') in {f2['name'] for f2 in boolf}:
                        written.add(lhs_.get('name'))
        if len(written) == 1:
            boolf = [f2 for f2 in boolf if f2['name'] in written]
        elif len([f2 for f2 in boolf if f2['ct'] == 'bool']) == 1:
            boolf = [f2 for f2 in boolf if f2['ct'] == 'bool']
    if len(boolf) != 1:
        ctx.undecided(R5, 'ParameterizedObject::Param' + tag, 'cannot tell which of the members %s is the query status' % [f['name'] for f in boolf],
                      tu.fn_file([f for f in tu.functions.values() if f.get('recid') == r['id']][0]))
        return dict(n5=0, counts=dict(insert=0, insert_ok=0, fn=0, fn_ok=0))
    DATA, QUERY, NAME = anyf[0]['name'], boolf[0]['name'], strf[0]['name']
    QWIDTH = INT_WIDTH[boolf[0]['ct']]
    QTYPE = boolf[0]['ct']
    keyexpr0 = ('field', ('deref', ('lparam', 0)), NAME)
    fns = [f for f in tu.functions.values() if f.get('recid') == r['id'] and not f['dep'] and tu.cfg(f) is not None
           and not f.get('implicit') and not f.get('ctor') and not f.get('dtor')]
    fns.sort(key=lambda f: (f['l'], f['fty']))
    counts = dict(insert=0, insert_ok=0, fn=0, fn_ok=0)
    check_sequence_rules(ctx, tu, se, seq, fns, None, tag, counts)
    n5 = 0
    FIND = PO + '::findParam'
    finders = [f for f in fns if strip_targs(f['q']) == FIND]
    if len(finders) != 1:
        ctx.broken('R-C10-5: %s not found (or overloaded)' % FIND)
        return dict(n5=0, counts=counts)
    finder = finders[0]
    ffile = tu.fn_file(finder)
    fpname = pattern_name(tu, finder)
    floc = tu.fn_loc(finder)

    aux_names = [f['name'] for f in r['fields'] if f['name'] != S[2]]
    aux_info = dict(cache=set(), skip={}, reset_fn=None, reset_ok=False)

    def cache_hit(p, rvu, K):
        """(index member, name member) if the path returns paramList[index member] under `index member < size()` and
        `name member == name`: a remembered position"""
        size = ('call', 'std::vector::size', S)
        for c, pol, _ in p.conds:
            cu = unver(c)
            if pol is True and isinstance(cu, tuple) and cu[0] == 'lt' and cu[2] == size and isinstance(cu[1], tuple) \
                    and cu[1][:2] == ('field', THIS) and cu[1][2] in aux_names:
                idx = cu[1]
                want = (('call', 'std::__shared_ptr::get', ('elem', S, idx)), ('addr', ('deref', ('elem', S, idx))),
                        ('call', 'std::__shared_ptr::get', ('call', 'std::vector::at', S, idx)))
                if rvu not in want:
                    continue
                for c2, pol2, _ in p.conds:
                    c2u = unver(c2)
                    if pol2 is True and isinstance(c2u, tuple) and c2u[0] == 'eq' and K in c2u[1:]:
                        o = c2u[2] if c2u[1] == K else c2u[1]
                        if isinstance(o, tuple) and o[:2] == ('field', THIS) and o[2] in aux_names:
                            return (idx[2], o[2])
        return None

    def eval_finder(flag, fn=None):
        """classify the paths of findParam(name, flag) - or of a one-argument helper fn(name) against the same specification: list of
        (kind, why) problems, list of undecided"""
        probs, und = [], []
        fn_ = fn or finder
        K = ('param', 0, fn_['params'][0].get('name') or '')
        try:
            paths = paths_of(se, fn_, args=(K, ('const', flag)) if fn is None else (K,))
        except Unsupported as e:
            return [], [('paths', str(e))]
        for p in paths:
            evs = [x for x in seq.seq_events(p, False) if not (x[0] == 'algo' and x[1] in ALGO_READ)]
            lc = seq.lookup_cond(p)
            rv = p.term[1] if p.term[0] == 'return' else None
            rvu = unver(rv) if rv is not None else None
            if lc is None:
                hit = cache_hit(p, rvu, K)
                if hit is not None:
                    aux_info['cache'].add(hit)        # judged by the coherence clause (check_aux_state)
                    if evs:
                        probs.append(('found-mutates', 'findParam modifies the list on the remembered-position path: `%s`' % tu.show(evs[0][2].node)))
                    continue
                dg = None
                for c_, _pol, _n in p.conds:
                    cu_ = unver(c_)
                    if isinstance(cu_, tuple) and cu_[0] == 'eq' and vend(S) in cu_[1:]:
                        for x_ in cu_[1:]:
                            dg = dg or seq.digest_lookup(x_)
                if dg is not None:
                    def small(e_):
                        if isinstance(e_, tuple) and e_[:2] == ('field', ('deref', ('lparam', 0))) and len(e_) == 3:
                            return next((f2['ct'] for f2 in pr['fields'] if f2['name'] == e_[2] and f2['ct'] in INT_WIDTH), None)
                        if isinstance(e_, tuple) and e_[0] == 'call' and last(str(e_[1])) in ('size', 'length') and len(e_) == 3 and e_[2] == keyexpr0:
                            return 'size_t'
                        return None
                    kinds = [small(e_) for e_, _o in dg]
                    if all(kinds):
                        probs.append(('lookup-by-digest',
                                      'findParam does not compare the name: its search predicate only compares %s. These are fixed-width integers, a name is '
                                      'an arbitrary string: two different names that agree in them (same length, colliding hash) are one key for '
                                      'hasParam / getParam / setParam - the second is never stored and reads the first one\'s value - while removeParam '
                                      'and the stored `%s` still tell them apart' % (' and '.join('`%s` (%s)' % (show(e_), k_) for (e_, _o), k_ in zip(dg, kinds)), NAME)))
                    else:
                        und.append(('lookup-other-key', 'findParam(name, %s) searches with a predicate that is not recognised as a comparison of the name: %s'
                                    % (bool(flag), ' && '.join('%s == %s' % (show(a_), show(b_)) for a_, b_ in dg))))
                    continue
                if rvu is not None and not has_unknown(rvu) and contains(rvu, S) and not any(contains(rvu, ('field', THIS, a)) for a in aux_names) \
                        and not any(contains(unver(c_), S) for c_, _p, _n in p.conds):
                    probs.append(('unguarded', 'findParam(name, %s) returns `%s` on a path that never compares a lookup of the name with end()'
                                  % (bool(flag), show(rvu))))
                else:
                    und.append(('unguarded', 'findParam(name, %s) has a path without a lookup of the name whose result (`%s`) is not a recognised form'
                                % (bool(flag), show(rvu) if rvu is not None else p.term[0])))
                continue
            failed, L, kx, Kx, _ = lc
            report_mismatch(lookup_mismatch(kx, Kx, keyexpr0, K), probs, und)
            if not failed:
                if evs:
                    probs.append(('found-mutates', 'findParam modifies the list although the name was found: `%s`' % tu.show(evs[0][2].node)))
                found_vals = (('call', 'std::__shared_ptr::get', ('deref', L)), ('addr', ('deref', ('deref', L))))
                if rvu not in found_vals:
                    (und if rvu is None or has_unknown(rvu) else probs).append(
                        ('found-wrong-result', 'findParam returns `%s` for a found name instead of the found parameter' % (show(rvu) if rvu else p.term[0])))
            elif flag == 0:
                if evs:
                    probs.append(('read-inserts', 'findParam(name, false) modifies the parameter list (`%s`): hasParam / getParam would create parameters'
                                  % tu.show(evs[0][2].node)))
                if rvu != ('null',):
                    (und if rvu is None or has_unknown(rvu) else probs).append(
                        ('missing-not-null', 'findParam(name, false) returns `%s` for a missing name instead of nullptr' % (show(rvu) if rvu else p.term[0])))
            else:
                apps = [x for x in evs if appended_elem(seq, x) is not None]
                if len(apps) != 1 or len(evs) != 1:
                    if not evs and rvu == ('null',):
                        probs.append(('no-insert-when-asked', 'findParam(name, true) returns nullptr for a missing name: setParam dereferences it'))
                    elif len(apps) > 1:
                        probs.append(('no-single-append', 'findParam(name, true) appends %d parameters for one missing name' % len(apps)))
                    else:
                        und.append(('no-single-append', 'findParam(name, true) performs list operation(s) %s for a missing name; not recognised as one append'
                                    % ', '.join('`%s`' % tu.show(x[2].node) for x in evs)))
                    continue
                ael = appended_elem(seq, apps[0])
                elem = ael[0] if ael else None
                back = ('call', 'std::vector::back', S)
                ins = unver(apps[0][2].nf) if apps[0][1] in INSERT and apps[0][2].nf is not None else None   # insert() returns the new position
                if ins is not None and rvu in (('call', 'std::__shared_ptr::get', ('deref', ins)), ('addr', ('deref', ('deref', ins)))):
                    pass
                elif rvu in (('call', 'std::__shared_ptr::get', back), ('addr', ('deref', back))):
                    sv = versions_in(rv).get(S, set())
                    if any(v != se.version_in(p.ver, S) for v in sv):
                        probs.append(('added-wrong-result', 'the returned element is read before the new parameter is appended'))
                elif elem is not None and rvu in (('call', 'std::__shared_ptr::get', elem), ('addr', ('deref', elem))) and not has_unknown(elem) \
                        and isinstance(elem, tuple) and elem[:2] == ('call', 'std::make_shared') \
                        and len([e for e in p.events if e.kind == 'call' and base_name(e.how or '') == 'std::make_shared']) == 1:
                    # one allocation on this path: the pointer was taken from the very shared_ptr that is then moved into the list
                    # (moving a shared_ptr does not move its pointee)
                    pass
                elif elem is not None and rvu in (('call', 'std::__shared_ptr::get', elem), ('addr', ('deref', elem))) and not has_unknown(elem):
                    und.append(('added-wrong-result', 'findParam returns a pointer obtained from `%s`; cannot tell whether it is the appended object' % show(elem)))
                else:
                    (und if rvu is None or has_unknown(rvu) else probs).append(
                        ('added-wrong-result', 'findParam(name, true) returns `%s` after appending instead of the new last parameter' % (show(rvu) if rvu else p.term[0])))
        return probs, und

    finder_ok = {}
    for flag in (0, 1):
        n5 += 1
        inst = 'ParameterizedObject::findParam(name, %s)%s' % ('true' if flag else 'false', tag)
        probs, und = eval_finder(flag)
        finder_ok[flag] = not probs and not und
        if probs:
            for kind, why in sorted(set(probs)):
                ctx.violation(R5, inst, why, floc, key='%s|%s|%s|%s' % (R5, ffile, fpname, kind))
        elif und:
            for kind, why in sorted(set(und)):
                ctx.undecided(R5, inst, why, floc)
        else:
            ctx.ok(R5, inst, 'found -> the found parameter; missing -> %s' % ('append Param(name), return it' if flag else 'nullptr, list untouched'), floc)

    # private one-argument helpers that meet the specification of findParam(name, false) / findParam(name, true) (the finder split into
    # a pure lookup and a find-or-add, called directly by the accessors): their calls are read as the findParam call they stand for
    helpers = []
    for h in fns:
        if h is finder or h.get('access') != 'private' or len(h.get('params', [])) != 1 or not h['fty'].split('(')[0].strip().endswith('Param *') \
                or norm_str_ref(h['params'][0]['ct']) is False:
            continue
        for flag in (0, 1):
            pr_, un_ = eval_finder(flag, fn=h)
            if not pr_ and not un_ and finder_ok.get(flag):
                helpers.append((h, flag))
                break
    if helpers:
        for h, flag in helpers:
            se.call_alias[h['id']] = (FIND, (('const', flag),))
        keep_ = {finder['id']} | {h['id'] for h, _f in helpers}
        se._paths = {k_: v_ for k_, v_ in se._paths.items() if k_[0] in keep_}

    def find_calls(p):
        out = []
        for ev in p.events:
            if ev.kind == 'call' and base_name(ev.how or '') == FIND:
                out.append(ev)
        return out

    OBSERVERS = {'hasParam', 'params_begin', 'params_end'}
    n_obs = [0]
    for f in fns:
        name = last(strip_targs(f['q']))
        if f is finder:
            continue
        inst = inst_name(f) + tag
        pname = pattern_name(tu, f)
        loc = tu.fn_loc(f)
        file = tu.fn_file(f)
        try:
            paths = paths_of(se, f)
        except Unsupported as e:
            ctx.undecided(R5, inst, str(e), loc)
            continue
        p0 = ('param', 0, f['params'][0].get('name') or '') if f.get('params') else None
        p1 = ('param', 1, f['params'][1].get('name') or '') if len(f.get('params', [])) > 1 else None
        probs, und = [], []

        def finder_call(flag):
            return ('call', FIND, THIS, p0, ('const', flag))

        if name == 'hasParam':
            n5 += 1
            for p in paths:
                rv = unver(p.term[1]) if p.term[0] == 'return' and p.term[1] is not None else None
                if rv == mk_not(mk_eq(('null',), finder_call(0))):
                    pass
                elif rv == ('call', 'std::any_of', None, vbegin(S), vend(S), ('pred', mk_eq(keyexpr0, p0))) \
                        and not [x for x in seq.seq_events(p, False) if not (x[0] == 'algo' and x[1] in ALGO_READ)]:
                    pass      # a presence test with the lookup's own predicate; the list is not touched
                elif rv == mk_not(mk_eq(('null',), finder_call(1))):
                    probs.append(('read-inserts', 'hasParam calls findParam(name, true): asking for a parameter creates it'))
                elif rv == mk_eq(('null',), finder_call(0)):
                    probs.append(('inverted', 'hasParam returns true when the parameter is absent'))
                else:
                    (und if rv is None or has_unknown(rv) else probs).append(('wrong-value', 'hasParam returns `%s`' % (show(rv) if rv else p.term[0])))
        elif name == 'getParam':
            n5 += 1
            T = (f.get('targs') or ['?'])[0]
            # the finder call this getParam makes (with the inserting flag it is reported as such; the rest is judged relative to it)
            flags = {unver(ev.value[1]) for p_ in paths for ev in find_calls(p_) if ev.value and len(ev.value) == 2}
            gflag = 1 if flags == {('const', 1)} else 0
            P = finder_call(gflag)
            obj = ('deref', P)
            qplace = ('field', obj, QUERY)
            dplace = ('field', obj, DATA)
            is_t = ('call', '%s::is{%s}' % (ANY, T), dplace)
            get_t = ('call', '%s::get{%s}' % (ANY, T), dplace)
            for p in paths:
                fc = find_calls(p)
                for ev in fc:
                    a = [unver(x) for x in (ev.value or ())]
                    if len(a) == 2 and a[1] == ('const', 1):
                        probs.append(('read-inserts', 'getParam calls findParam(name, true): reading a name that is not set creates an (empty) entry for it - '
                                      'hasParam is true afterwards and the entry takes a place in the parameter order, although nothing was inserted'))
                    elif len(a) != 2 or a[0] != p0 or a[1] != ('const', 0):
                        und.append(('finder-args', 'findParam is called with `%s`' % ', '.join(show(x) for x in a)))
                stores = [ev for ev in p.events if ev.kind == 'store']
                qstores = [ev for ev in stores if ev.nf == qplace]
                other_stores = [ev for ev in stores if ev.nf != qplace and ev.place is None]
                nonnull = p.cond_of(mk_eq(('null',), P)) is False or gflag == 1     # findParam(name, true) never yields null (decided above)
                typed = p.cond_of(is_t) is True
                rv = unver(p.term[1]) if p.term[0] == 'return' and p.term[1] is not None else None
                uses_get = rv is not None and bool(find_all(rv, lambda t: t[0] == 'call' and isinstance(t[1], str) and t[1].startswith(ANY + '::get')))
                deref_any = [ev for ev in p.events if ev.kind == 'call' and ev.place is not None and contains(ev.place, obj)]
                wrong_is = [c for c, pol, _ in p.conds if isinstance(unver(c), tuple) and unver(c)[0] == 'call'
                            and str(unver(c)[1]).startswith(ANY + '::is{') and unver(c) != is_t]
                if wrong_is:
                    m_ = re.search(r'::is\{(.*)\}$', str(unver(wrong_is[0])[1]))
                    probs.append(('type-test-other-type',
                                  'getParam<%s> tests `%s`, i.e. whether the stored value has type %s: a read is typed by the exact type that was '
                                  'stored - a parameter holding another type must yield the caller\'s default and stay unqueried, whatever '
                                  'conversion exists between the two types' % (T, show(unver(wrong_is[0])), m_.group(1) if m_ else 'different type')))
                # the stored value is only read: handing it to a move constructor / move assignment as an rvalue empties it
                for ev in p.events:
                    if ev.kind != 'call' or ev.node is None or not isinstance(ev.value, (list, tuple)):
                        continue
                    sd_ = tu.sd(ev.node)
                    m_ = re.search(r'\((.*)\)', sd_.get('fty') or '')
                    if not m_ or '&&' not in m_.group(1) or not any(isinstance(v, tuple) and contains(unver(v), dplace) for v in ev.value):
                        continue
                    h_ = base_name(ev.how or '')
                    if h_ in ('std::move', 'std::forward') or last(h_) in ('is', 'get'):
                        continue
                    # the argument expression itself must designate the stored value (the get<T>() call, or a reference bound to it) -
                    # a local that holds a copy of it is the function's own to move from
                    def designates_stored(a_):
                        a_ = tu.strip(a_, casts=True)
                        while a_ is not None and a_.get('kind') == 'CallExpr' and tu.sd(a_).get('q') in ('std::move', 'std::forward'):
                            a_ = tu.strip(tu.kids(a_)[-1], casts=True)
                        if a_ is None:
                            return None
                        if a_.get('kind') == 'DeclRefExpr':
                            ty_ = ((a_.get('referencedDecl') or {}).get('type') or {}).get('qualType', '')
                            return True if ty_.rstrip().endswith('&') else False
                        if a_.get('kind') == 'CXXMemberCallExpr' and last(base_name(tu.sd(a_).get('q') or '')) == 'get':
                            return True
                        return None
                    argn_ = [k_ for k_ in tu.kids(ev.node)]
                    if ev.node.get('kind') in ('CallExpr', 'CXXOperatorCallExpr', 'CXXMemberCallExpr'):
                        argn_ = argn_[1:]
                    ds_ = [designates_stored(k_) for k_ in argn_]
                    if ds_ and all(x is False for x in ds_):
                        continue
                    if not any(x is True for x in ds_):
                        und.append(('stored-value-rvalue', 'cannot tell whether `%s` is handed the stored value itself or a copy of it' % tu.show(ev.node)[:120]))
                        continue
                    if sd_.get('k') == 'ctor' or last(h_) == 'operator=':
                        rec_ = tu.records_by_type.get(sd_.get('cty') or sd_.get('ct') or '')
                        if rec_ and (rec_.get('move_ctor') or {}).get('simple'):
                            continue
                        probs.append(('read-moves-stored-value',
                                      'getParam<%s> hands the stored value to `%s` as an rvalue (`%s`): the read moves the value out of the parameter, '
                                      'which still reports is<%s>() but holds a moved-from value - a second getParam of the same name yields that instead '
                                      'of the value that was set' % (T, h_, tu.show(ev.node)[:120], T)))
                    else:
                        und.append(('stored-value-rvalue', 'the stored value is passed as an rvalue to `%s`' % h_))
                # `query = data.is<T>()`: the flag is assigned the outcome of the type test instead of being set after it
                q_is = [ev for ev in qstores if unver(ev.value) == is_t]
                if q_is and nonnull:
                    after = [pol for idx_, (c_, pol, _n) in enumerate(p.conds) if idx_ >= q_is[0].conds_n and unver(c_) == qplace]
                    direct = p.cond_of(is_t)
                    outcome = after[0] if after else direct     # a test of the flag after the store reads the value just stored
                    if outcome is None:
                        und.append(('query-store', '`%s` is assigned `%s` and the path does not branch on it' % (QUERY, show(is_t))))
                    elif outcome is False:
                        probs.append(('query-cleared-by-mismatched-read',
                                      '`%s` assigns the outcome of the type test to `%s`: on a read with a type other than the stored one it stores false, '
                                      'clearing the mark an earlier successful read has set - the query status must last until '
                                      'resetAllParamQueryStatus, and a mismatched read must leave the parameter as it is'
                                      % (tu.show(q_is[0].node), QUERY)))
                        if rv != p1:
                            (und if rv is None or has_unknown(rv) else probs).append(
                                ('default-not-returned', 'on the mismatched-type path getParam returns `%s` instead of the caller\'s default' % (show(rv) if rv else p.term[0])))
                    else:
                        if len(qstores) != 1:
                            und.append(('query-store', '`%s` is written %d times on the typed path' % (QUERY, len(qstores))))
                        if rv != get_t:
                            (und if rv is None or has_unknown(rv) else probs).append(
                                ('wrong-result', 'a successful typed read returns `%s` instead of data.get<%s>()' % (show(rv) if rv else p.term[0], T)))
                    continue
                if other_stores:
                    und.append(('other-store', 'getParam writes `%s`' % show(other_stores[0].nf)))
                qincs = [ev for ev in p.events if ev.kind == 'mutate' and ev.nf == qplace and ev.how in ('++', 'operator++')]
                qother = [ev for ev in p.events if ev.kind == 'mutate' and ev.nf == qplace and ev not in qincs]
                if qother:
                    und.append(('query-update', '`%s` is updated by `%s`' % (QUERY, tu.show(qother[0].node))))
                if qincs and not (nonnull and typed):
                    why_ = 'the parameter may be null' if not nonnull else 'its stored type was not tested to be exactly %s' % T
                    probs.append(('query-set-unguarded', '`%s` is raised on a path where %s' % (QUERY, why_)))
                if nonnull and typed and qincs and not qstores:
                    # the status is a counter raised by one: it reads as "queried" afterwards only if it cannot wrap to zero
                    bounded = any(contains(unver(c), qplace) and unver(c)[0] in ('lt', 'eq') for c, pol, _ in p.conds)
                    if QWIDTH >= 64:
                        pass          # 2^64 reads between two resets are not a history
                    elif bounded:
                        und.append(('query-counter', '`%s` is raised under a test of its own value that is not modelled' % QUERY))
                    else:
                        probs.append(('query-counter-wraps',
                                      'a successful read raises `%s` with `%s`, an unsaturated %d-bit counter (%s): after 2^%d successful reads without a '
                                      'reset it is 0 again and the parameter reads as not queried, although it was read and the status was not reset'
                                      % (QUERY, tu.show(qincs[0].node), QWIDTH, QTYPE, QWIDTH)))
                elif nonnull and typed:
                    already = p.cond_of(qplace) is True       # the path has just tested that the flag is set
                    okval = len(qstores) == 1 and isinstance(unver(qstores[0].value), tuple) and unver(qstores[0].value)[0] == 'const' \
                        and unver(qstores[0].value)[1] != 0 and (QWIDTH == 1 or unver(qstores[0].value)[1] % (1 << QWIDTH) != 0)
                    if not (already and not qstores) and not okval:
                        probs.append(('query-not-set', 'a successful typed read does not set `%s = true`' % QUERY))
                if nonnull and typed:
                    if rv != get_t:
                        (und if rv is None or has_unknown(rv) else probs).append(
                            ('wrong-result', 'a successful typed read returns `%s` instead of data.get<%s>()' % (show(rv) if rv else p.term[0], T)))
                else:
                    why = 'the parameter may be null' if not nonnull else 'its stored type was not tested to be exactly %s' % T
                    if nonnull and (qstores or uses_get):
                        # what did the path test instead of data.is<T>() ?
                        tests = [unver(c_) for c_, _p, _n in p.conds if contains(unver(c_), obj)]
                        on_value = [c_ for c_ in tests if contains(c_, ('field', obj, DATA)) and c_ != is_t]
                        others = sorted({x[2] for c_ in tests for x in find_all(c_, lambda t: t[0] == 'field' and len(t) >= 3 and t[1] == obj) if x[2] != DATA})
                        if on_value:
                            und.append(('type-test', 'the typed read is guarded by a test of the stored value that is not `%s.is<%s>()`: %s'
                                        % (DATA, T, '; '.join(show(c_) for c_ in on_value)[:200])))
                            continue
                        if others:
                            why = ('the type test is made on the member(s) %s of the parameter, not on the stored value (`%s.is<%s>()`): what such a member '
                                   'records (e.g. the static type setParam was called with) need not be the type the Any holds' % (others, DATA, T))
                    if deref_any and not nonnull:
                        probs.append(('null-deref', 'the result of findParam is dereferenced (`%s`) on a path where it may be null' % tu.show(deref_any[0].node)))
                    if qstores:
                        probs.append(('query-set-unguarded', '`%s` is written on a path where %s' % (QUERY, why)))
                    if uses_get:
                        probs.append(('get-unguarded', 'data.get<%s>() is reached on a path where %s' % (T, why)))
                    elif rv != p1:
                        (und if rv is None or has_unknown(rv) else probs).append(
                            ('default-not-returned', 'on a path where %s getParam returns `%s` instead of the caller\'s default' % (why, show(rv) if rv else p.term[0])))
        elif name == 'setParam':
            n5 += 1
            T = (f.get('targs') or ['?'])[0]
            for p in paths:
                fc = find_calls(p)
                if len(fc) != 1:
                    und.append(('finder', 'setParam calls findParam %d times' % len(fc)))
                    continue
                a = [unver(x) for x in (fc[0].value or ())]
                if len(a) == 2 and a[0] == p0 and a[1] == ('const', 0):
                    probs.append(('no-insert-when-asked', 'setParam calls findParam(name, false): a new name is never created (null is dereferenced)'))
                    continue
                if len(a) != 2 or a[0] != p0 or a[1] != ('const', 1):
                    und.append(('finder-args', 'findParam is called with `%s`' % ', '.join(show(x) for x in a)))
                    continue
                target = ('deref', finder_call(1))
                # the assignment into the Any member: directly, or through Param::set
                assigns = []
                for ev in p.events:
                    if ev.kind != 'call':
                        continue
                    h = base_name(ev.how or '')
                    if h == ANY + '::operator=' and ev.place is not None:
                        assigns.append((ev.place, unver(ev.value[0]) if ev.value else None))
                    elif h == PARAM + '::set' and ev.place is not None and not ev.inlined:
                        callee = tu.callee_fn(ev.node)
                        if callee is None or tu.cfg(callee) is None:
                            und.append(('set', 'Param::set has no analysable body'))
                            continue
                        try:
                            sp = se.paths(callee, this=ev.place, args=tuple(unver(x) for x in ev.value))
                        except Unsupported as e:
                            und.append(('set', str(e)))
                            continue
                        for q in sp:
                            for e2 in q.events:
                                if e2.kind == 'call' and base_name(e2.how or '') == ANY + '::operator=' and e2.place is not None:
                                    assigns.append((e2.place, unver(e2.value[0]) if e2.value else None))
                if len(assigns) == 2 and assigns[0][0] == assigns[1][0] == ('field', target, DATA) and assigns[0][1] == ('construct', ANY) \
                        and assigns[1][1] in (p1, ('construct', ANY, p1)):
                    probs.append(('value-released-before-rebuilt',
                                  'the stored value is released first (`%s = Any()`) and only then the new one is built and assigned: if building the new value '
                                  'throws, or the argument refers to the stored value itself, the previously written value is lost (Any::operator=(T) '
                                  'alone builds the new value before it lets go of the old one)' % DATA))
                    continue
                if not assigns:
                    # the store is skipped: recognised when the path has just found the stored value `==` the incoming one
                    dpl_ = ('field', target, DATA)
                    stored_ = (dpl_, ('call', '%s::get{%s}' % (ANY, T), dpl_))
                    skip_eq = [unver(c_) for c_, pol_, _n in p.conds if pol_ is True and isinstance(unver(c_), tuple) and unver(c_)[0] == 'eq'
                               and any(x_ in unver(c_)[1:] for x_ in stored_) and (p1 in unver(c_)[1:] or ('construct', ANY, p1) in unver(c_)[1:])]
                    if skip_eq and T in FLOAT_KEYS:
                        probs.append(('store-skipped-when-equal',
                                      'setParam<%s> leaves the stored value in place when it compares equal to the new one (`%s`): operator== on the '
                                      'payload is not identity of the value - for %s, -0.0 == +0.0 (and the stored type is the same), so after '
                                      'set(0.0f); set(-0.0f) a read still returns +0.0: not the last value written' % (T, show(skip_eq[0]), T)))
                        continue
                    if skip_eq and (T in INTEGRAL_KEYS or T.startswith('std::basic_string<') or T.endswith('*') or T == 'bool'):
                        continue      # for these payload types values that compare equal are indistinguishable: skipping the store changes nothing
                    if skip_eq:
                        und.append(('store-skipped-when-equal', 'setParam<%s> skips the store when the stored value compares equal to the new one; whether '
                                    'operator== of %s is identity of the value is not decided' % (T, T)))
                        continue
                if len(assigns) != 1:
                    und.append(('no-single-store', 'setParam performs %d assignment(s) to a parameter value; the form is not recognised' % len(assigns)))
                    continue
                place, val = assigns[0]
                if val == ('construct', ANY, p1):
                    val = p1          # data = Any(value): the same value
                if place != ('field', target, DATA):
                    probs.append(('store-other-param', 'the value is stored into `%s` instead of the `%s` of the parameter found-or-added under the name' % (show(place), DATA)))
                if val != p1:
                    (und if val is None or has_unknown(val) or find_all(val, lambda t: t[0] == 'field' and t[1] != THIS) else probs).append(
                        ('store-other-value', 'the stored value is `%s` instead of the argument' % (show(val) if val is not None else '?')))
                # writing a value must leave the rest of an existing parameter alone: its query status lasts until the reset
                for ev in p.events:
                    lhs = None
                    if ev.kind == 'store' and isinstance(ev.nf, tuple) and ev.nf[:1] == ('field',) and len(ev.nf) == 3:
                        lhs = ev.nf
                    elif ev.kind == 'call' and last(ev.how or '') == 'operator=' and isinstance(ev.place, tuple) and ev.place[:1] == ('field',) \
                            and len(ev.place) == 3:
                        lhs = ev.place
                    if lhs is not None and lhs[1] == target and lhs[2] == QUERY:
                        probs.append(('resets-query-flag',
                                      'setParam writes `%s` of the parameter it found (`%s`): overwriting an existing parameter changes its query '
                                      'status - a parameter that was read is no longer "queried" although resetAllParamQueryStatus was not called'
                                      % (QUERY, tu.show(ev.node))))
                    if ev.kind == 'call' and base_name(ev.how or '') == PARAM + '::operator=' and ev.place == target and not ev.inlined:
                        probs.append(('resets-query-flag',
                                      'setParam assigns a whole Param to the parameter it found (`%s`): every member is overwritten, including `%s` - a '
                                      'parameter that was read is no longer "queried" although resetAllParamQueryStatus was not called'
                                      % (tu.show(ev.node), QUERY)))
        elif name == 'removeParam':
            n5 += 1
            for p in paths:
                evs = [x for x in seq.seq_events(p, False) if not (x[0] == 'algo' and x[1] in ALGO_READ)]
                lc = seq.lookup_cond(p)
                compacts = [x for x in evs if x[0] == 'algo' and x[1] in ALGO_COMPACT]
                if compacts:
                    kind, aname, ev = compacts[0]
                    vals = [unver(v) for v in ev.value]
                    pr_ = vals[2] if len(vals) > 2 else None
                    body = pr_[1] if isinstance(pr_, tuple) and pr_[0] == 'pred' else None
                    if aname == 'loop::shift_down':
                        m_ = seq.match_lookup(vals[0])
                        if m_ is None:
                            und.append(('erase-predicate', 'the compaction loop does not start at the result of a lookup of the name'))
                            continue
                        report_mismatch(lookup_mismatch(m_[0], m_[1], keyexpr0, p0), probs, und)
                    neg = False
                    if body is not None and body[0] == 'not':
                        body, neg = body[1], True
                    if body is None or body[0] != 'eq':
                        und.append(('erase-predicate', 'predicate of `%s` not recognised' % tu.show(ev.node)))
                        continue
                    a, b = body[1], body[2]
                    if contains(b, ('lparam', 0)):
                        a, b = b, a
                    if a != keyexpr0 or b != p0:
                        probs.append(('erase-predicate-key', 'removeParam compares `%s` with `%s`' % (show(a), show(b))))
                    elif (ALGO_COMPACT[aname] == 'keep') != neg:
                        probs.append(('erase-predicate-polarity', 'removeParam removes the parameters whose name is different from the argument'))
                    continue
                # the by-name search delegated to findParam(name, false): V = the first parameter named `name`, or null.  For a non-null V
                # the search of the list for the entry whose pointer is V (`p.get() == V`) finds the very entry findParam stopped at
                # (an earlier entry holding the same object would carry the same name and findParam would have stopped there), so it
                # cannot fail and needs no end() test
                V = finder_call(0)
                nullc = p.cond_of(mk_eq(('null',), V))

                def ident_lookup(x):
                    m_ = seq.match_lookup(x)
                    return m_ is not None and m_[1] == V and m_[0] in (('call', 'std::__shared_ptr::get', ('lparam', 0)), ('addr', ('deref', ('lparam', 0))))
                if nullc is not None and (lc is None or ident_lookup(lc[1])):
                    if not finder_ok.get(0):
                        und.append(('finder', 'removeParam relies on findParam(name, false), which is not decided to return the first parameter of that name or null'))
                        continue
                    if nullc is True:
                        if evs:
                            probs.append(('erase-when-missing', 'removeParam modifies the list (`%s`) although findParam did not find the name'
                                          % tu.show(evs[0][2].node)))
                        continue
                    if lc is not None and lc[0]:
                        if evs:      # the identity search of a parameter findParam just returned cannot fail
                            und.append(('shape', 'removeParam changes the list on the (impossible) path where the found parameter is not in the list'))
                        continue
                    erases = [x for x in evs if x[0] == 'member' and x[1] == 'erase']
                    if not erases:
                        did = ', '.join('`%s`' % tu.show(x[2].node) for x in evs) or 'nothing'
                        probs.append(('not-erased', 'removeParam leaves the found entry in the list (it does %s): the name stays stored - with its position '
                                      'and its query flag - so a later setParam of that name gets the old entry back (already "queried", at the old '
                                      'place in the iteration order) instead of a fresh parameter appended at the end' % did))
                    elif len(evs) != 1:
                        und.append(('not-erased', 'removeParam erases and also does %s' % ', '.join('`%s`' % tu.show(x[2].node) for x in evs if x[1] != 'erase')))
                    else:
                        ea = [unver(a) for a in erases[0][2].value]
                        if len(ea) == 1 and ident_lookup(ea[0]):
                            pass
                        elif any(has_unknown(a) for a in ea) or (len(ea) == 1 and isinstance(ea[0], tuple) and ea[0][:2] == ('call', 'std::find_if')):
                            und.append(('erase-not-found-iterator', 'removeParam erases `%s`, which is not recognised as the entry findParam returned'
                                        % ', '.join(show(a) for a in ea)))
                        else:
                            probs.append(('erase-not-found-iterator', 'removeParam erases `%s` instead of the entry that holds the parameter findParam returned'
                                          % ', '.join(show(a) for a in ea)))
                    continue
                if lc is None and seq.rev_lookup_cond(p) is not None:
                    rc_ = seq.rev_lookup_cond(p)
                    report_mismatch(lookup_mismatch(rc_[2], rc_[3], keyexpr0, p0), probs, und)
                    seq.judge_reverse_erase(p, evs, tu, 'removeParam', probs, und)
                    continue
                if lc is None:
                    if evs:
                        probs.append(('erase-unguarded', '`%s` is not guarded by a comparison of the lookup result with end()' % tu.show(evs[0][2].node)))
                    else:
                        und.append(('shape', 'removeParam has a path without lookup'))
                    continue
                failed, L, kx, Kx, _ = lc
                report_mismatch(lookup_mismatch(kx, Kx, keyexpr0, p0), probs, und)
                if failed:
                    if evs:
                        probs.append(('erase-when-missing', 'removeParam modifies the list (`%s`) although the name was not found' % tu.show(evs[0][2].node)))
                else:
                    unk_ = [x for x in evs if x[0] == 'algo' and x[1] not in ALGO_COMPACT and x[1] not in ALGO_REORDER and x[1] != 'std::move(shift-down)']
                    if not any(x[0] == 'member' and x[1] == 'erase' for x in evs) and unk_:
                        und.append(('not-erased', 'removeParam hands the list to `%s`, whose effect is not known, and does not erase the found iterator'
                                    % tu.show(unk_[0][2].node)))
                    elif not any(x[0] == 'member' and x[1] == 'erase' for x in evs) and any(x[1] == 'std::move(shift-down)' for x in evs) \
                            and not any(x[0] == 'member' for x in evs):
                        sh_ = [x for x in evs if x[1] == 'std::move(shift-down)'][0]
                        probs.append(('not-erased', 'removeParam shifts the entries behind the found one down (`%s`) but never removes the vacated last slot: '
                                      'the list keeps its length, with an emptied (moved-from, null) entry at the end that every later search dereferences'
                                      % tu.show(sh_[2].node)))
                    elif not any(x[0] == 'member' and x[1] == 'erase' for x in evs):
                        did = ', '.join('`%s`' % tu.show(x[2].node) for x in evs) or 'nothing'
                        probs.append(('not-erased', 'removeParam leaves the found entry in the list (it does %s): the name stays stored - with its position '
                                      'and its query flag - so a later setParam of that name gets the old entry back (already "queried", at the old '
                                      'place in the iteration order) instead of a fresh parameter appended at the end' % did))
                    elif len(evs) != 1:
                        und.append(('not-erased', 'removeParam erases and also does %s' % ', '.join('`%s`' % tu.show(x[2].node) for x in evs if x[1] != 'erase')))
                    elif [unver(a) for a in evs[0][2].value] != [L]:
                        probs.append(('erase-not-found-iterator', 'removeParam erases `%s` instead of exactly the found iterator'
                                      % ', '.join(show(unver(a)) for a in evs[0][2].value)))
        elif name == 'resetAllParamQueryStatus':
            n5 += 1
            aux_info['reset_fn'] = f
            check_reset_loop(tu, se, seq, f, paths, QUERY, probs, und, aux_names, aux_info)
            aux_info['reset_ok'] = not probs and not und
        elif name in ('params_begin', 'params_end'):
            n5 += 1
            for p in paths:
                rv = unver(p.term[1]) if p.term[0] == 'return' and p.term[1] is not None else None
                want = vbegin(S) if name == 'params_begin' else vend(S)
                if rv != want:
                    (und if rv is None or has_unknown(rv) else probs).append(('wrong-value', '%s returns `%s`' % (name, show(rv) if rv else p.term[0])))
        else:
            continue
        if name in OBSERVERS:
            # who-may-write: the observers (presence test, iteration bounds) leave every member of every parameter alone - the query
            # status is a function of the successful typed reads since the last reset only, so no observer may store into it
            n_obs[0] += 1
            for p in paths:
                for ev in p.events:
                    lhs = None
                    if ev.kind == 'store' and isinstance(ev.nf, tuple) and ev.nf[:1] == ('field',) and len(ev.nf) == 3:
                        lhs = ev.nf
                    elif ev.kind == 'call' and last(ev.how or '') == 'operator=' and isinstance(ev.place, tuple) and ev.place[:1] == ('field',) \
                            and len(ev.place) == 3:
                        lhs = ev.place
                    if lhs is not None and lhs[1] != THIS and lhs[2] in (QUERY, DATA, NAME):
                        if lhs[2] == QUERY:
                            probs.append(('observer-writes-query',
                                          '%s writes `%s` of a parameter (`%s`): only a successful typed getParam may raise the query status and only '
                                          'resetAllParamQueryStatus may clear it - a mere %s makes a parameter that was never read (or was reset) count as '
                                          '"queried"' % (name, QUERY, tu.show(ev.node), 'presence test' if name == 'hasParam' else 'observer')))
                        else:
                            probs.append(('observer-writes-param', '%s writes `%s` of a parameter (`%s`): an observer must leave the parameters unchanged'
                                          % (name, lhs[2], tu.show(ev.node))))
                    elif ev.kind == 'call' and base_name(ev.how or '') == PARAM + '::operator=' and not ev.inlined:
                        probs.append(('observer-writes-param', '%s assigns a whole Param (`%s`): every member is overwritten, including `%s`'
                                      % (name, tu.show(ev.node), QUERY)))
        if probs:
            for kind, why in sorted(set(probs)):
                ctx.violation(R5, inst, why, loc, key='%s|%s|%s|%s' % (R5, file, pname, kind))
        elif und:
            for kind, why in sorted(set(und)):
                ctx.undecided(R5, inst, why, loc)
        else:
            ctx.ok(R5, inst, '%d path(s) conform' % len(paths), loc)
    n5 += 1
    if not n_obs[0]:
        ctx.broken('R-C10-5: no observer (%s) of %s was analysed for writes to the parameters' % ('/'.join(sorted(OBSERVERS)), PO))
    report_search_defects(ctx, tu, se, R5, tag)
    check_aux_state(ctx, tu, se, seq, fns, r, finder, aux_names, aux_info, (DATA, QUERY, NAME), tag)
    return dict(n5=n5, counts=counts)


def is_aux_cond(cu, aux_names, S):
    """condition over auxiliary members only (no reference to the sequence)"""
    return any(contains(cu, ('field', THIS, a)) for a in aux_names) and not contains(cu, S)


def check_reset_loop(tu, se, seq, f, paths, QUERY, probs, und, aux_names=(), aux_info=None):
    """every path is k >= 0 iterations of: test cursor against the end, store query=false into the cursor's element, advance by
    one.  A path may be preceded by tests of auxiliary members (a counter / flag of queried parameters); a path that returns
    without clearing because such a member is zero is recorded in aux_info['skip'] and justified (or not) by check_aux_state."""
    S = seq.S

    def qstores(p):
        return [ev for ev in p.events if ev.kind == 'store' and isinstance(ev.nf, tuple) and ev.nf[0] == 'field' and ev.nf[2] == QUERY]

    its = [p for p in paths if qstores(p)]
    if not its:
        probs.append(('no-reset', 'no path writes `%s`' % QUERY))
        return
    loop_paths = 0
    zero_loop = 0
    for p in paths:
        if p.term[0] != 'end' and not (p.term[0] == 'return' and p.term[1] is None):
            und.append(('loop-shape', 'a path ends with %s' % p.term[0]))
            return
        stores = qstores(p)
        other = [ev for ev in p.events if ev.kind == 'store' and ev not in stores]
        for ev in other:
            if not (ev.place is not None and ev.place[:2] == ('field', THIS) and ev.place[2] in aux_names):
                und.append(('loop-shape', 'the reset also writes `%s`' % show(ev.nf)))
                return
        incs = [ev for ev in p.events if ev.kind == 'mutate' and ev.place is not None and ev.place[0] == 'var']
        guards = []
        tests = list(p.conds)
        while tests and is_aux_cond(unver(tests[0][0]), aux_names, S):
            guards.append(tests.pop(0))
        if any(is_aux_cond(unver(c), aux_names, S) for c, pol, _ in tests):
            und.append(('loop-shape', 'an auxiliary member is tested inside the loop'))
            return
        g = len(guards)
        if guards and not tests and not stores:
            # early exit decided by auxiliary members alone
            ok_guard = False
            if len(guards) == 1:
                cu, pol = unver(guards[0][0]), guards[0][1]
                a = None
                if isinstance(cu, tuple) and cu[0] == 'eq' and ('const', 0) in cu[1:] and pol is True:
                    o = cu[2] if cu[1] == ('const', 0) else cu[1]
                    a = o
                elif isinstance(cu, tuple) and cu[:2] == ('field', THIS) and pol is False:
                    a = cu
                if isinstance(a, tuple) and a[:2] == ('field', THIS) and a[2] in aux_names and aux_info is not None:
                    aux_info['skip'][a[2]] = (f, p, guards[0])
                    ok_guard = True
            if not ok_guard:
                und.append(('loop-shape', 'the reset returns early under `%s`, which is not a recognised "nothing is flagged" test'
                            % ' && '.join(('' if pol else '!') + show(c) for c, pol, _ in guards)))
                return
            continue
        loop_paths += 1
        if not stores:
            zero_loop += 1
        if len(tests) != len(stores) + 1:
            probs.append(('conditional-reset', 'the loop has %d test(s) for %d write(s) of `%s`: some element can be skipped or the loop left early'
                          % (len(tests), len(stores), QUERY)))
            return
        for i, (c, pol, _) in enumerate(tests):
            cu = unver(c)
            last_test = (i == len(tests) - 1)
            # iterator form: cursor == end(S); index form: cursor < size(S)
            form = None
            cur = None
            if isinstance(cu, tuple) and cu[0] == 'eq' and vend(S) in cu[1:]:
                cur = [x for x in cu[1:] if x != vend(S)]
                cur = cur[0] if cur else None
                form = 'iter'
                entered = (pol is False)
            elif isinstance(cu, tuple) and cu[0] == 'lt' and cu[2] == ('call', 'std::vector::size', S):
                cur = cu[1]
                form = 'index'
                entered = (pol is True)
            elif cu == mk_eq(('const', 0), ('call', 'std::vector::size', S)):
                cur = ('const', 0)          # `0 < size()` is normalised to `size() != 0`
                form = 'index'
                entered = (pol is False)
            else:
                und.append(('loop-shape', 'loop test `%s` is not a comparison of a cursor with the end / size of the list' % show(cu)))
                return
            if entered == last_test:
                und.append(('loop-shape', 'unexpected polarity of loop test `%s`' % show(cu)))
                return
            if i == 0:
                start = vbegin(S) if form == 'iter' else ('const', 0)
                if cur != start:
                    (und if has_unknown(cur) else probs).append(('loop-start', 'the loop starts at `%s` instead of the first element' % show(cur)))
                    return
            if not last_test:
                st = stores[i]
                elem = ('deref', cur) if form == 'iter' else ('elem', S, cur)
                if st.conds_n != g + i + 1:
                    probs.append(('conditional-reset', 'the write of `%s` is conditional' % QUERY))
                    return
                if st.nf != ('field', ('deref', elem), QUERY):
                    (und if has_unknown(st.nf) and not contains(st.nf, QUERY) else probs).append(
                        ('reset-other-element', 'the loop writes `%s` instead of the `%s` of the current element' % (show(st.nf), QUERY)))
                    return
                if unver(st.value) != ('const', 0):
                    probs.append(('reset-value', '`%s` is set to `%s` instead of false' % (QUERY, show(unver(st.value)))))
                    return
        ninc = len([ev for ev in incs if ev.how in ('operator++', '++')])
        if ninc != len(stores) or len(incs) != ninc:
            (probs if all(ev.how in ('operator++', '++', 'operator--', '--', 'operator+=') for ev in incs) else und).append(
                ('loop-step', 'the cursor is advanced %d time(s) for %d element(s) written' % (len(incs), len(stores))))
            return
    if not zero_loop:
        und.append(('loop-shape', 'no path skips the loop body'))


def check_aux_state(ctx, tu, se, seq, fns, r, finder, aux_names, info, names, tag):
    """R-C10-5, coherence of derived state.  Members of ParameterizedObject other than the list are auxiliary; two uses are
    recognised, each with the maintenance obligations that make it behaviour-preserving:
      * a counter / flag C of queried parameters that lets resetAllParamQueryStatus return early when C == 0: every path that sets a
        query flag (not known to be set already) raises C; C is lowered only on a path that has tested the flag of a parameter it
        un-flags or removes; C is zeroed only by the clearing loop;
      * a remembered position (index member I, name member N) that lets findParam return paramList[I] when I < size() and N == name:
        I and N are written together as (position of a parameter found-or-added under K, K) or I is set to a constant; every
        path that erases / inserts before the end / compacts the list writes I afterwards (or invalidates it).
    Any other influence of an auxiliary member on results is undecided."""
    R5 = 'R-C10-5'
    S = seq.S
    DATA, QUERY, NAME = names
    file = tu.fn_file(finder)
    inst0 = 'ParameterizedObject derived state' + tag
    if not aux_names:
        ctx.ok(R5, inst0, 'no members besides the parameter list: no derived state to keep coherent', file, nontrivial=False)
        return
    counters = dict(info['skip'])
    caches = set(info['cache'])
    cache_idx = {i: n for i, n in caches}
    cache_name = {n: i for i, n in caches}
    size = ('call', 'std::vector::size', S)
    reported = False

    def field(a):
        return ('field', THIS, a)

    def viol(f, kind, why, node, path=None):
        nonlocal reported
        reported = True
        ctx.violation(R5, inst_name(f) + tag, why, tu.loc(node) if node is not None else tu.fn_loc(f),
                      key='%s|%s|%s|%s' % (R5, tu.fn_file(f), pattern_name(tu, f), kind), path=path or [])

    def und(f, why, node=None):
        nonlocal reported
        reported = True
        ctx.undecided(R5, inst_name(f) + tag, why, tu.loc(node) if node is not None else tu.fn_loc(f))

    def shifting(p, fconst):
        out = []
        for kind, name, ev in seq.seq_events(p, fconst):
            if kind == 'member' and name == 'erase':
                out.append(ev)
            elif kind == 'member' and name in INSERT:
                a = [unver(x) for x in (ev.value or ())]
                if not a or a[0] != vend(S):
                    out.append(ev)
            elif kind == 'algo' and name in ALGO_COMPACT:
                out.append(ev)
            elif kind == 'algo' and name in ALGO_REORDER:
                out.append(ev)
        return out

    for f in fns:
        if is_followed_helper(tu, f, fns):
            continue
        try:
            paths = paths_of(se, f)
        except Unsupported:
            continue
        fconst = bool(f.get('const'))
        for p in paths:
            writes = {}       # aux member -> [(event, kind, value)]
            for ev in p.events:
                pl = ev.place if ev.kind in ('store', 'mutate') else None
                if isinstance(pl, tuple) and pl[:2] == ('field', THIS) and len(pl) == 3 and pl[2] in aux_names:
                    if ev.kind == 'store':
                        writes.setdefault(pl[2], []).append((ev, '=', unver(ev.value)))
                    else:
                        v = unver(ev.value[0]) if (ev.how == 'operator=' and ev.value) else None
                        writes.setdefault(pl[2], []).append((ev, ev.how, v))
            qsets = [ev for ev in p.events if ev.kind == 'store' and isinstance(ev.nf, tuple) and ev.nf[0] == 'field' and ev.nf[2] == QUERY]
            # ---- counters
            for C, (rf, rp, guard) in counters.items():
                ups = [w for w in writes.get(C, []) if w[1] in ('++', 'operator++') or (w[1] == '=' and isinstance(w[2], tuple) and (
                    (w[2][0] == 'const' and w[2][1] != 0) or (w[2][0] == 'add' and any(isinstance(x, tuple) and x[0] == 'const' and x[1] > 0 for x in w[2][1:]))))]
                downs = [w for w in writes.get(C, []) if w[1] in ('--', 'operator--') or (w[1] == '=' and isinstance(w[2], tuple) and
                                                                                         w[2][0] == 'add' and any(isinstance(x, tuple) and x[0] == 'const' and x[1] < 0 for x in w[2][1:]))]
                zeros = [w for w in writes.get(C, []) if w[1] == '=' and w[2] == ('const', 0)]
                others = [w for w in writes.get(C, []) if w not in ups and w not in downs and w not in zeros]
                for ev in qsets:
                    if unver(ev.value) == ('const', 1) and p.cond_of(ev.nf) is not True and not ups:
                        viol(f, 'counter-not-raised', 'a query flag is set (`%s`) on a path that does not raise `%s`: `%s` can be zero while a parameter is '
                             'flagged, and %s then returns without clearing it' % (tu.show(ev.node), C, C, short(strip_targs(rf['q']))), ev.node)
                for w in downs:
                    tested = [c for c, pol, _ in p.conds[:w[0].conds_n] if pol is True and isinstance(unver(c), tuple) and unver(c)[0] == 'field'
                              and unver(c)[2] == QUERY]
                    justified = False
                    for c in tested:
                        X = unver(c)[1]
                        cleared = any(ev.nf == ('field', X, QUERY) and unver(ev.value) == ('const', 0) for ev in qsets)
                        erased = any(contains(X, unver(a)) for ev in shifting(p, fconst) for a in (ev.value or ()) if isinstance(unver(a), tuple))
                        if cleared or erased:
                            justified = True
                    if justified:
                        continue
                    if any(contains(unver(c), QUERY) for c, pol, _ in p.conds):
                        und(f, '`%s` is lowered on a path whose tests of `%s` are not in a recognised form' % (C, QUERY), w[0].node)
                        continue
                    viol(f, 'counter-lowered-unjustified',
                         '`%s` lowers the counter `%s` on a path that never tests whether the parameter it removes / un-flags was flagged as queried '
                         '(path conditions: %s). The counter is not maintained exactly: it can reach 0 while parameters are still flagged, and %s '
                         'returns early on `%s` without clearing them - a successful read then stays "queried" across a reset'
                         % (tu.show(w[0].node), C, ', '.join('%s is %s' % (show(c), pol) for c, pol, _ in p.conds[:w[0].conds_n]) or 'none',
                            short(strip_targs(rf['q'])), show(guard[0]) + (' is %s' % guard[1])), w[0].node,
                         path=['%s returns early when %s' % (rf['q'], show(guard[0])), 'lowered at %s: %s' % (tu.loc(w[0].node), tu.show(w[0].node))])
                for w in zeros:
                    if f is not rf:
                        und(f, '`%s` is zeroed outside the clearing loop' % C, w[0].node)
                    elif not any(ev.nf[2] == QUERY for ev in qsets) and p.cond_of(mk_eq(vbegin(S), vend(S))) is not True:
                        und(f, '`%s` is zeroed on a path that does not clear the flags' % C, w[0].node)
                for w in others:
                    und(f, '`%s` is written in a form that is not a recognised raise / lower / reset (`%s`)' % (C, tu.show(w[0].node)), w[0].node)
            # ---- remembered positions
            for I, N in caches:
                sh = shifting(p, fconst)
                wI = writes.get(I, [])
                wN = writes.get(N, [])
                for w in wI:
                    v = w[2]
                    if w[1] == '=' and isinstance(v, tuple) and v[0] == 'const':
                        continue          # invalidation (or a fixed position: harmless only if out of range - the guard I < size() decides)
                    okpos = False
                    if w[1] == '=' and isinstance(v, tuple) and v[0] == 'call' and v[1] == 'std::distance' and len(v) == 5 and v[3] == vbegin(S):
                        X = v[4]
                        kn = [unver(x[2]) for x in wN if x[2] is not None]
                        m = seq.match_lookup(X)
                        lc = seq.lookup_cond(p)
                        if m is not None and lc is not None and lc[0] is False and unver(lc[1]) == X and kn == [unver(m[1])]:
                            okpos = True
                        if X == mk_comm('add', [vend(S), ('const', -1)]) and lc is not None and lc[0] is True and kn == [unver(lc[3])]:
                            apps = [x for x in seq.seq_events(p, fconst) if x[0] == 'member' and x[1] in APPEND]
                            if len(apps) == 1 and path_pos(p, apps[0][2]) < path_pos(p, w[0]):
                                okpos = True
                    if not okpos:
                        und(f, 'the remembered position `%s` is set to `%s`, which is not recognised as the position of the parameter named by `%s`'
                            % (I, show(v) if v is not None else w[1], N), w[0].node)
                for w in wN:
                    if not wI:
                        und(f, 'the remembered name `%s` is written without the position `%s`' % (N, I), w[0].node)
                if sh:
                    last_sh = max(path_pos(p, ev) for ev in sh)
                    after = [w for w in wI if path_pos(p, w[0]) > last_sh or (w[1] == '=' and isinstance(w[2], tuple) and w[2][0] == 'const')]
                    if not after:
                        ev = sh[-1]
                        if any(contains(unver(c), field(I)) for c, pol, _ in p.conds):
                            und(f, '`%s` moves parameters while the remembered position `%s` is kept, on a path that tests `%s` in a form not modelled'
                                % (tu.show(ev.node), I, I), ev.node)
                        else:
                            viol(f, 'remembered-position-stale',
                                 '`%s` moves the parameters behind it to new positions on a path that leaves the remembered position `%s` untouched '
                                 '(path conditions: %s). %s later returns paramList[%s] when `%s` equals the requested name: after removing an '
                                 'earlier parameter that is a different parameter, so lookups / setParam / getParam hit the wrong entry'
                                 % (tu.show(ev.node), I, ', '.join('%s is %s' % (show(c), pol) for c, pol, _ in p.conds) or 'none',
                                    short(strip_targs(finder['q'])), I, N), ev.node,
                                 path=['%s returns paramList[%s] under %s < size() && %s == name' % (finder['q'], I, I, N),
                                       'positions shift at %s: %s' % (tu.loc(ev.node), tu.show(ev.node)), 'no write of %s follows on this path' % I])
        # ---- any other influence of auxiliary members on this function's results
        if f is finder or f is info.get('reset_fn'):
            for p in paths:
                for c, pol, _ in p.conds:
                    cu = unver(c)
                    if not any(contains(cu, field(a)) for a in aux_names):
                        continue
                    used = [a for a in aux_names if contains(cu, field(a))]
                    if f is finder and all(a in cache_idx or a in cache_name for a in used):
                        continue
                    if f is info.get('reset_fn') and all(a in counters for a in used):
                        continue
                    und(f, 'the auxiliary member(s) %s decide `%s` in a way that is not a recognised counter / remembered position' % (used, show(cu)))
                    break
        else:
            groups = {}
            for p in paths:
                key = frozenset((unver(c), pol) for c, pol, _ in p.conds if not any(contains(unver(c), field(a)) for a in aux_names))
                evs = tuple((k, n, tuple(unver(a) for a in (ev.value or ()))) for k, n, ev in seq.seq_events(p, fconst)
                            if not (k == 'algo' and n in ALGO_READ))
                qs = tuple((ev.nf, unver(ev.value)) for ev in p.events if ev.kind == 'store' and isinstance(ev.nf, tuple) and ev.nf[0] == 'field'
                           and ev.nf[2] in (QUERY, DATA))
                t = p.term
                res = (t[0], unver(t[1]) if t[0] == 'return' and t[1] is not None else (t[1] if t[0] == 'throw' else None))
                groups.setdefault(key, set()).add((evs, qs, res))
            if any(len(v) > 1 for v in groups.values()):
                und(f, 'an auxiliary member (%s) changes what this function does to the list / the flags / its result' % ', '.join(aux_names))
    if not reported:
        ctx.ok(R5, inst0, 'auxiliary members %s: %s; all maintenance obligations hold'
               % (aux_names, ', '.join(['counter ' + c for c in counters] + ['remembered position (%s,%s)' % x for x in caches]) or 'no influence on results'), file)


# ============================================================================================
#  R-C10-6 : a by-reference key argument may name a key stored in the container itself
# ============================================================================================
MOVING_CALLS = {'erase', 'insert', 'emplace', 'push_back', 'emplace_back', 'resize', 'clear', 'assign', 'pop_back', 'operator=', 'swap',
                'shrink_to_fit', 'reserve'}
DESTROYING_CALLS = {'erase', 'resize', 'clear', 'assign', 'pop_back', 'operator='}


def check_key_alias(ctx, tu, tag=''):
    """erase(fm.begin()->first), removeParam(p->name): the key argument is a reference and may designate a key stored in the very
    sequence the member is about to change.  Recognised wrong:
      (A) the parameter is read again after a call on the sequence that moves or destroys elements (vector::erase slides the
          successors down, so the reference now denotes a different key; for the list of shared_ptr<Param>, destroying an entry can
          destroy the Param that holds the name);
      (B) the parameter is captured by reference in the predicate of an algorithm that moves the elements while it runs
          (stable_partition / remove_if / partition ...): the predicate compares against a moved-from or overwritten key.  For a
          trivially copyable key type a move is a copy and, keys being unique, the comparisons stay right - accepted.
    Correct forms read the parameter only before the first such call (single-element erase after the search), or work on a copy."""
    R6 = 'R-C10-6'
    ctx.describe(R6, 'a by-reference key parameter (it may name a key stored in the container itself) is not read after the sequence has moved / '
                     'destroyed elements, and is not captured by reference in the predicate of an element-moving algorithm unless the key type '
                     'is trivially copyable')
    n = 0
    targets = []
    for r in tu.records.values():
        if r.get('lambda'):
            continue
        if r.get('tmpl') == FM and r.get('targs'):
            vf = [f for f in r['fields'] if f['ct'].startswith('std::vector<std::pair<')]
            if len(vf) == 1:
                kt = r['targs'][0]
                targets.append((r, vf[0]['id'], ('const %s &' % kt.get('t'),), MOVING_CALLS, bool(kt.get('trivially_copyable')), kt.get('t')))
        elif r['q'] == PO:
            vf = [f for f in r['fields'] if f['ct'].startswith('std::vector<std::shared_ptr<')]
            if len(vf) == 1:
                targets.append((r, vf[0]['id'], ('const std::basic_string<char> &', 'const std::string &'), DESTROYING_CALLS, False, 'std::string'))
    for r, sid, ptypes, moving, trivial, ktname in sorted(targets, key=lambda t: t[0]['type']):
        fns = [f for f in tu.functions.values() if f.get('recid') == r['id'] and not f['dep'] and tu.cfg(f) is not None
               and not f.get('implicit') and not f.get('ctor') and not f.get('dtor')]
        for f in sorted(fns, key=lambda f: (f['l'], f['fty'])):
            refs = {p['id']: p['name'] for p in f.get('params', []) if p['ct'] in ptypes}
            if not refs:
                continue
            g = tu.cfg(f)
            inst = inst_name(f) + tag
            pname = pattern_name(tu, f)
            file = tu.fn_file(f)
            n += 1
            found = []

            def on_seq(x):
                sd, obj, args = tu.call_parts(x)
                o = tu.strip(obj, casts=True) if obj is not None else None
                return o is not None and o.get('kind') == 'MemberExpr' and tu.sd(o).get('d') == sid

            # local iterators / pointers / references into the sequence (initialised from it, or from another such local)
            into = set()
            body_ = tu.body(f)
            decls_ = [y for y in tu.walk(body_) if y.get('kind') == 'VarDecl'] if body_ is not None else []
            grew = True
            while grew:
                grew = False
                for vd in decls_:
                    if vd['id'] in into:
                        continue
                    for y in tu.walk(vd):
                        if (y.get('kind') == 'MemberExpr' and tu.sd(y).get('d') == sid) or \
                                (y.get('kind') == 'DeclRefExpr' and y.get('referencedDecl', {}).get('id') in into):
                            into.add(vd['id'])
                            grew = True
                            break

            def elem_store(x):
                """assignment to a whole stored element or to its key through an iterator / index into the sequence: the old key there
                is overwritten (moved over), exactly what vector::erase does to the successors of the erased position"""
                k_ = x.get('kind')
                if k_ == 'BinaryOperator' and x.get('opcode') == '=':
                    lhs = tu.kids(x)[0]
                elif k_ == 'CXXOperatorCallExpr' and last(strip_targs(tu.sd(x).get('q', ''))) == 'operator=' and len(tu.kids(x)) == 3:
                    lhs = tu.kids(x)[1]
                else:
                    return False
                lhs = tu.strip(lhs, casts=True)
                if lhs is not None and lhs.get('kind') == 'MemberExpr':
                    if lhs.get('name') != 'first':
                        return False
                    lhs = tu.strip(tu.kids(lhs)[0], casts=True) if tu.kids(lhs) else None
                if lhs is None:
                    return False
                deref = (lhs.get('kind') == 'UnaryOperator' and lhs.get('opcode') == '*') or lhs.get('kind') == 'ArraySubscriptExpr' or \
                    (lhs.get('kind') == 'CXXOperatorCallExpr' and last(strip_targs(tu.sd(lhs).get('q', ''))) in ('operator*', 'operator[]', 'operator->')) or \
                    (lhs.get('kind') == 'CXXMemberCallExpr' and last(strip_targs(tu.sd(lhs).get('q', ''))) in ('back', 'front', 'at'))
                if not deref:
                    return False
                return any((y.get('kind') == 'MemberExpr' and tu.sd(y).get('d') == sid) or
                           (y.get('kind') == 'DeclRefExpr' and y.get('referencedDecl', {}).get('id') in into) for y in tu.walk(lhs))

            def transfer(blk, i, el, st):
                if el[0] != 'S':
                    return [st]
                x = tu.node(el[1])
                if x is None:
                    return [st]
                k = x.get('kind')
                if k in ('BinaryOperator', 'CXXOperatorCallExpr') and elem_store(x):
                    return [x['id']]
                if k in ('CXXMemberCallExpr', 'CXXOperatorCallExpr') and on_seq(x):
                    sd = tu.sd(x)
                    if last(strip_targs(sd.get('q', ''))) in moving and not re.search(r'\)\s*const\b', sd.get('fty', '')):
                        return [x['id']]
                if k == 'DeclRefExpr' and st is not None and x.get('referencedDecl', {}).get('id') in refs:
                    found.append((x, st))
                return [st]

            g.explore([None], transfer)
            bad = False
            if found:
                x, callid = found[0]
                call = tu.node(callid)
                nm = refs[x['referencedDecl']['id']]
                ctx.violation(R6, inst, 'the reference parameter `%s` is read at %s after `%s` at %s has moved / destroyed elements of the sequence. `%s` may '
                              'name a key stored in this very container (erase(m.begin()->first)): after the call it denotes whatever element slid into '
                              'that place (or a destroyed object), so the comparison is no longer with the key the caller passed'
                              % (nm, tu.loc(x), tu.show(call), tu.loc(call), nm), tu.loc(x),
                              key='%s|%s|%s|key-read-after-move' % (R6, file, pname),
                              path=[inst, 'elements moved at %s: %s' % (tu.loc(call), tu.show(call)), 'parameter read again at %s' % tu.loc(x)])
                bad = True
            # (B) predicates of element-moving algorithms
            for b, i, x in g.stmts():
                if x.get('kind') != 'CallExpr':
                    continue
                q = strip_targs(tu.sd(x).get('q', ''))
                if q not in ALGO_COMPACT and q not in ALGO_REORDER:
                    continue
                uses_seq = any(y.get('kind') == 'MemberExpr' and tu.sd(y).get('d') == sid for y in tu.walk(x))
                if not uses_seq:
                    continue
                for lam in (y for y in tu.walk(x) if y.get('kind') == 'LambdaExpr'):
                    ks = tu.kids(lam)
                    recd = ks[0] if ks and ks[0].get('kind') == 'CXXRecordDecl' else None
                    fields = [y for y in tu.kids(recd) if y.get('kind') == 'FieldDecl'] if recd else []
                    inits = [y for y in ks[1:] if y.get('kind') not in ('CompoundStmt',)]
                    for fd, init in zip(fields, inits):
                        ini = tu.strip(init, casts=True)
                        if ini is None or ini.get('kind') != 'DeclRefExpr' or ini.get('referencedDecl', {}).get('id') not in refs:
                            continue
                        byref = (fd.get('type') or {}).get('qualType', '').rstrip().endswith('&')
                        nm = refs[ini['referencedDecl']['id']]
                        if not byref:
                            continue
                        if trivial:
                            ctx.ok(R6, inst, '`%s` reads `%s` by reference while it moves elements; %s is trivially copyable (a move leaves the source '
                                   'intact) and keys are unique, so every comparison is still against a key different from all kept ones'
                                   % (last(q), nm, ktname), tu.loc(x))
                            continue
                        ctx.violation(R6, inst, 'the predicate of `%s` reads the reference parameter `%s` while the algorithm is moving the elements. `%s` may '
                                      'name a key stored in this very container (erase(m.begin()->first)): once that element has been moved out the '
                                      'predicate compares against a moved-from %s (then against whichever element is moved into its place), so '
                                      'entries other than the requested one can be removed'
                                      % (last(q), nm, nm, ktname), tu.loc(x),
                                      key='%s|%s|%s|predicate-reads-aliased-key' % (R6, file, pname),
                                      path=[inst, '%s at %s moves elements while its predicate runs' % (last(q), tu.loc(x)),
                                            'the predicate captures `%s` by reference' % nm])
                        bad = True
            if not bad:
                ctx.ok(R6, inst, 'reference key parameter(s) %s not read after / while elements move' % sorted(refs.values()), tu.fn_loc(f))
    return n


# ============================================================================================
def run(ctx):
    ctx.assume('KEY::operator== is an equivalence relation and std::string comparison is value comparison')
    ctx.assume('std::vector, std::find_if, std::stable_partition, std::make_shared behave as documented; Any::is<T>/get<T> as decided by C09')
    jobs = [dict(unit='drivers/c10_maps.cpp', config='TBB')]
    if ctx.tier == 'thorough':
        jobs.append(dict(unit='drivers/c10_maps.cpp', config='TBB', std='gnu++17', extra=('-DRKVERIF_C10_WIDE',)))
    tus = ctx.front.parse_many(jobs)
    for i, tu in enumerate(tus):
        tag = '' if i == 0 else ' [gnu++17,wide]'
        a = check_flatmap(ctx, tu, tag)
        b = check_paramobj(ctx, tu, tag)
        n6 = check_key_alias(ctx, tu, tag)
        ctx.floor('R-C10-6', n6, 12, 'members taking the key by reference: at x2, operator[], contains, erase, lookup x2 per FlatMap instantiation; '
                                      'hasParam, removeParam, findParam, setParam/getParam instantiations')
        ctx.floor('R-C10-3', a['n3'], 40, '23 members x 2 key/value instantiations analysed against their role')
        ctx.floor('R-C10-4', a['n4'], 12, 'sibling groups at, at_index, begin, end, rbegin, rend, lookup x 2 instantiations')
        ctx.floor('R-C10-1', a['counts']['insert'] + b['counts']['insert'], 3, 'insertion sites: FlatMap::operator[] x 2 instantiations + findParam')
        ctx.floor('R-C10-2', a['counts']['fn'] + b['counts']['fn'], 50, 'every member of both classes is scanned for sequence mutations')
        ctx.floor('R-C10-5', b['n5'], 13, 'findParam x2 flags, hasParam, getParam x3, setParam x3, removeParam, resetAll, params_begin/end')
    # observation: the const operator[] cannot be instantiated
    rc, err = ctx.front.compile_check('witness/c10_flatmap_const_index.cpp')
    if rc != 0:
        m = re.search(r'error: (.*)', err)
        ctx.ok('R-C10-4', 'FlatMap::operator[] const (witness/c10_flatmap_const_index.cpp)',
               'observation: the const overload cannot be instantiated (%s); it is dead code and is not analysed' % (m.group(1)[:120] if m else 'compile error'),
               'rkcommon/containers/FlatMap.h', nontrivial=False)
        ctx.note('observation: FlatMap::operator[] const does not compile when instantiated (push_back on a const vector); dead code')
    else:
        tu = ctx.front.parse('witness/c10_flatmap_const_index.cpp', 'TBB')
        check_flatmap(ctx, tu, ' [const operator[] witness]')
    from rkstatic import selftest
    selftest.run(ctx)
