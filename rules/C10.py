"""C10 - FlatMap and ParameterizedObject conform to an insertion-ordered unique-key map.

Decided statically on the CFG paths of every instantiated member (drivers/c10_maps.cpp; path summaries and
expression normal forms from rkstatic/x_symnf.py).  The rules are the per-operation invariants a conformance
proof against a reference map needs:
  R-C10-1  unique keys: every insertion into the sequence (FlatMap::values, ParameterizedObject::paramList) is
           reached only on the failed edge of a lookup *of the key being inserted* (lookup = find_if over the whole
           sequence with an equality predicate on the key member), with no change of the sequence in between.
  R-C10-2  insertion order: the sequence is changed only by order-preserving operations (append, stable_partition
           / remove_if followed by truncation at the returned iterator, erase, clear, reserve, pop_back);
           partition, sort, reverse, rotate, swap / iter_swap, whole-element overwrite are rejected.
  R-C10-3  FlatMap operations: at() throws std::out_of_range exactly on the failed-lookup edge and returns the
           found element's .second otherwise; operator[] returns the found value or appends (key, VALUE()) and
           returns the new last value; contains is `lookup != end`; erase removes exactly the elements whose
           key equals the argument (predicate = negation / identity of lookup's, per algorithm); at_index, size,
           empty, clear, reserve forward to the sequence.
  R-C10-4  const / non-const siblings (and begin/cbegin-style accessors) have identical path summaries.
  R-C10-5  ParameterizedObject: findParam(name, false) never inserts and returns the found parameter or null;
           findParam(name, true) never returns null and inserts only a parameter of that name when none exists;
           hasParam / getParam use the non-inserting form; getParam sets `query` and calls get<T>() exactly on the
           path `param != null && data.is<T>()` (same T) and otherwise returns the default untouched;
           setParam stores into the parameter found-or-added under that name; removeParam erases only the found
           iterator; resetAllParamQueryStatus writes query = false on every element of the sequence.
Calls to helpers are followed (members of the analysed classes, free / file-local functions; a [[noreturn]] helper
that throws ends the path with that throw); a helper whose own summary is a linear search - cursor from first to
last, end test before element test, returns at the first element whose key equals the argument, else last, no other
effect - is treated as the std::find_if it implements, whatever its name.  findParam keeps its own specification.
Not decided: step-by-step agreement with a reference map on arbitrary histories.
"""
import re

from rkstatic.x_symnf import (SymExec, Unsupported, unver, versions_in, show, last, strip_targs, contains, find_all,
                              mk_comm, mk_eq, mk_not, base_name)

LEVEL = 'other'
EXPLANATION = (
    "Every instantiated member of FlatMap (key/value types int/int, std::string/int; thorough: two more, gnu++17) and "
    "every member of ParameterizedObject (getParam/setParam for int, float, std::string) is summarised per CFG path "
    "(branch conditions, ordered effects on the underlying vector, returned / thrown value) in a normal form that is "
    "invariant under temporaries, if/?: and operand order. Decided for all histories, as per-operation invariants: "
    "insertions happen only after a failed lookup of the same key (keys stay unique); only order-preserving mutators "
    "touch the sequence (iteration = first-insertion order, removals keep the order of the rest); at()/operator[]/"
    "contains/erase/findParam/getParam/removeParam have exactly the guarded shape the map semantics require, incl. "
    "the exact-type test and the query flag; const and non-const siblings agree. Not decided: the inductive step "
    "from these invariants to agreement with a reference map on every history, the behaviour of KEY::operator== "
    "and of Any, copies of a ParameterizedObject sharing their parameters.")

FM = 'rkcommon::containers::FlatMap'
PO = 'rkcommon::utility::ParameterizedObject'
PARAM = PO + '::Param'
ANY = 'rkcommon::utility::Any'
THIS = ('this',)

APPEND = {'push_back', 'emplace_back'}
INSERT = {'insert', 'emplace'}
ORDER_OK = {'clear', 'reserve', 'shrink_to_fit', 'pop_back', 'erase'}
ALGO_READ = {'std::find_if', 'std::find', 'std::find_if_not', 'std::distance', 'std::any_of', 'std::all_of', 'std::none_of',
             'std::count', 'std::count_if', 'std::for_each', 'std::next', 'std::prev', 'std::advance', 'std::begin', 'std::end',
             'std::lower_bound', 'std::upper_bound', 'std::binary_search', 'std::equal', 'std::accumulate', 'std::move',
             'std::forward', 'std::make_pair', 'std::addressof'}
ALGO_COMPACT = {'std::stable_partition': 'keep', 'std::remove_if': 'drop', 'std::remove': 'value'}
ALGO_REORDER = {'std::partition', 'std::sort', 'std::stable_sort', 'std::reverse', 'std::rotate', 'std::swap', 'std::iter_swap',
                'std::swap_ranges', 'std::random_shuffle', 'std::shuffle', 'std::nth_element', 'std::partial_sort',
                'std::make_heap', 'std::push_heap', 'std::pop_heap', 'std::sort_heap', 'std::next_permutation',
                'std::prev_permutation', 'std::unique', 'std::inplace_merge'}


def follow_c10(f):
    """helper calls whose paths are spliced into the caller's summary: every member of FlatMap / ParameterizedObject /
    Param and every free or file-local function of rkcommon - except findParam, which has its own specification
    (R-C10-5) and is kept as a named call in its callers"""
    q = strip_targs(f['q'])
    if q == PO + '::findParam':
        return False
    rec = f.get('rec')
    if rec:
        return rec in (FM, PO, PARAM)
    return q.startswith('rkcommon::')


def mk_se(tu):
    return SymExec(tu, own=lambda f: f['q'].startswith('rkcommon::'), inline_stmt=follow_c10, recognise_search=True)


def short(q):
    return q.replace('rkcommon::containers::', '').replace('rkcommon::utility::', '')


def pattern_name(tu, f):
    p = tu.functions.get(f.get('pat')) if f.get('pat') else None
    if p is not None:
        return '%s %s' % (short(strip_targs(p['q'])), p['fty'])
    return '%s %s' % (short(strip_targs(f['q'])), f['fty'])


def inst_name(f):
    return '%s %s' % (short(f['q']), f['fty'])


def vbegin(S):
    return ('call', 'std::vector::begin', S)


def vend(S):
    return ('call', 'std::vector::end', S)


VOCAB_HEADS = {'field', 'deref', 'addr', 'param', 'lparam', 'this', 'const', 'null', 'not', 'eq', 'lt', 'add', 'mul', 'elem', 'pred',
               'str', 'call', 'construct', 'none'}
VOCAB_CALLS = {'std::vector::begin', 'std::vector::end', 'std::vector::rbegin', 'std::vector::rend', 'std::vector::back',
               'std::vector::front', 'std::vector::at', 'std::vector::size', 'std::vector::empty', 'std::vector::capacity',
               'std::find_if', 'std::__shared_ptr::get', 'std::shared_ptr::get', PO + '::findParam', 'std::make_pair',
               'std::make_shared'}


def has_unknown(nf):
    """is the value outside the small vocabulary in which normal forms are canonical?  A mismatch with the expected
    value is reported as a violation only inside the vocabulary; everything else is undecided."""
    def bad(t):
        if not t or not isinstance(t[0], str):
            return False
        if t[0] == 'call':
            return not (t[1] in VOCAB_CALLS or base_name(t[1]) in (ANY + '::get', ANY + '::is'))
        return t[0] not in VOCAB_HEADS and not (len(t) <= 3 and all(not isinstance(x, tuple) for x in t))
    return bool(find_all(nf, bad))


class Seq:
    """the sequence member of one record and the recognisers built on it"""

    def __init__(self, tu, se, rec, S):
        self.tu, self.se, self.rec, self.S = tu, se, rec, S

    def match_lookup(self, nf):
        """(key expression over ('lparam',0), searched key) if nf is find_if(S.begin(), S.end(), [key(elem) == K])"""
        S = self.S
        nf = unver(nf)
        if not (isinstance(nf, tuple) and len(nf) == 6 and nf[0] == 'call' and nf[1] == 'std::find_if' and nf[2] is None):
            return None
        if nf[3] != vbegin(S) or nf[4] != vend(S):
            return None
        p = nf[5]
        if not (isinstance(p, tuple) and p[0] == 'pred' and isinstance(p[1], tuple) and p[1][0] == 'eq'):
            return None
        a, b = p[1][1], p[1][2]
        la, lb = contains(a, ('lparam', 0)), contains(b, ('lparam', 0))
        if la and not lb:
            return a, b
        if lb and not la:
            return b, a
        return None

    def lookup_cond(self, path, upto=None):
        """(failed?, L, keyexpr, K, cond nf versioned) for the first decided condition `L == S.end()` on the path"""
        conds = path.conds if upto is None else path.conds[:upto]
        for c, pol, _ in conds:
            cu = unver(c)
            if isinstance(cu, tuple) and cu[0] == 'eq':
                for x, y in ((cu[1], cu[2]), (cu[2], cu[1])):
                    if y == vend(self.S):
                        m = self.match_lookup(x)
                        if m is not None:
                            return pol, x, m[0], m[1], c
        return None

    def seq_events(self, path, fn_const):
        """ordered effects on the sequence: [(kind, name, ev)], kind in member | algo | store"""
        S = self.S
        out = []
        for ev in path.events:
            if ev.kind == 'mutate' and ev.place == S:
                out.append(('member', ev.how, ev))
            elif ev.kind == 'mutate' and ev.place is not None and contains(ev.place, S):
                out.append(('member-sub', ev.how, ev))
            elif ev.kind == 'store' and ev.nf is not None and contains(ev.nf, S):
                out.append(('store', '=', ev))
            elif ev.kind == 'call' and last(ev.how or '') == 'operator=' and ev.place is not None and self.is_elem(ev.place):
                out.append(('store', 'operator=', ev))      # assignment to a whole element of class type
            elif ev.kind == 'call' and ev.node.get('kind') == 'CallExpr' and not fn_const:
                vals = [unver(v) for v in (ev.value or ())]
                if any(contains(v, S) for v in vals):
                    out.append(('algo', ev.how, ev))
        return out

    def is_elem(self, nf):
        """is nf an element of the sequence (S[i], S.at(i), S.back(), S.front(), *iterator-into-S)?"""
        S = self.S
        if not isinstance(nf, tuple) or not nf:
            return False
        if nf[0] == 'elem' and nf[1] == S:
            return True
        if nf[0] == 'call' and nf[1] in ('std::vector::back', 'std::vector::front', 'std::vector::at') and nf[2] == S:
            return True
        if nf[0] == 'deref' and contains(nf[1], S):
            return True
        return False

    def elem_key(self, elem, keyexpr):
        """value the key expression takes on a freshly built element, or None"""
        elem = unver(elem)
        if not isinstance(elem, tuple) or not elem:
            return None
        if keyexpr[0] == 'field' and keyexpr[1] == ('lparam', 0) and keyexpr[2] in ('first', 'second'):
            i = 0 if keyexpr[2] == 'first' else 1
            if elem[0] == 'call' and elem[1] == 'std::make_pair' and len(elem) == 5:
                return elem[3 + i]
            if elem[0] == 'construct' and elem[1].startswith('std::pair<') and len(elem) == 4:
                return elem[2 + i]
            return None
        if keyexpr[0] == 'field' and keyexpr[1] == ('deref', ('lparam', 0)):
            fld = keyexpr[2]
            args = None
            rec = None
            if elem[0] == 'call' and elem[1] == 'std::make_shared' and elem[2] is None:
                args = elem[3:]
            elif elem[0] == 'construct' and elem[1].startswith('std::shared_ptr<') and len(elem) >= 3 and \
                    isinstance(elem[2], tuple) and elem[2][0] == 'new':
                return None
            if args is None:
                return None
            # constructor of the pointee with that many parameters
            ptype = None
            for r in self.tu.records.values():
                if r.get('q') == PARAM and any(f['name'] == fld for f in r.get('fields', [])):
                    ptype = r
            if ptype is None:
                return None
            ctors = [f for f in self.tu.functions.values() if f.get('recid') == ptype['id'] and f.get('ctor') == 'other'
                     and len(f.get('params', [])) == len(args) and self.tu.cfg(f) is not None]
            if len(ctors) != 1:
                return None
            try:
                ps = self.se.paths(ctors[0], this=('obj',), args=tuple(args))
            except Unsupported:
                return None
            vals = set()
            for p in ps:
                for ev in p.events:
                    if ev.kind == 'init' and ev.how == fld:
                        vals.add(unver(ev.value))
            return vals.pop() if len(vals) == 1 else None
        return None


# ============================================================================================
#  generic rules over one record: R-C10-1, R-C10-2
# ============================================================================================
def check_sequence_rules(ctx, tu, se, seq, fns, file_of, tag, counts):
    R1, R2 = 'R-C10-1', 'R-C10-2'
    S = seq.S
    for f in fns:
        inst = inst_name(f) + tag
        pname = pattern_name(tu, f)
        loc = tu.fn_loc(f)
        file = tu.fn_file(f)
        try:
            paths = se.paths(f)
        except Unsupported as e:
            ctx.undecided(R2, inst, 'control flow not supported by the path summariser: %s' % e, loc)
            continue
        nmut = 0
        viol = False
        for p in paths:
            evs = seq.seq_events(p, bool(f.get('const')))
            compacts = []
            for kind, name, ev in evs:
                l = tu.loc(ev.node)
                what = tu.show(ev.node)
                if kind == 'member' and (name in APPEND or name in INSERT):
                    nmut += 1
                    counts['insert'] += 1
                    args = [unver(a) for a in (ev.value or ())]
                    if name in INSERT:
                        if not args or args[0] != vend(S):
                            if args and args[0] == vbegin(S):
                                ctx.violation(R2, inst, '`%s` inserts at the front: iteration order is no longer first-insertion order' % what, l,
                                              key='%s|%s|%s|insert-not-at-end' % (R2, file, pname))
                                viol = True
                            else:
                                ctx.undecided(R2, inst, '`%s` inserts at a position that is not recognised as the end of the sequence' % what, l)
                                viol = True
                            continue
                        args = args[1:]
                    # R-C10-1
                    lc = seq.lookup_cond(p, upto=ev.conds_n)
                    if lc is None:
                        ctx.violation(R1, inst, '`%s` is not preceded by a failed lookup (find_if over the whole sequence == end) on this path: '
                                      'an existing key would be stored twice' % what, l, key='%s|%s|%s|insert-without-failed-lookup' % (R1, file, pname),
                                      path=['conditions decided before the insertion: %s' % ([(show(c), pol) for c, pol, _ in p.conds[:ev.conds_n]] or 'none')])
                        viol = True
                        continue
                    failed, L, keyexpr, K, cnf = lc
                    if not failed:
                        ctx.violation(R1, inst, '`%s` is reached on the edge where the lookup *found* the key' % what, l,
                                      key='%s|%s|%s|insert-when-found' % (R1, file, pname))
                        viol = True
                        continue
                    sv = versions_in(cnf).get(S, set())
                    cur = se.version_in(ev.ver or {}, S)
                    if any(v != cur for v in sv):
                        ctx.violation(R1, inst, 'the sequence is modified between the lookup and `%s`: the failed lookup no longer speaks about the '
                                      'sequence the element is inserted into' % what, l, key='%s|%s|%s|lookup-stale' % (R1, file, pname))
                        viol = True
                        continue
                    if not args:
                        ctx.undecided(R1, inst, 'cannot see the inserted element of `%s`' % what, l)
                        viol = True
                        continue
                    ek = seq.elem_key(args[0], keyexpr) if name in ('push_back', 'insert') else \
                        seq.elem_key(('construct', 'std::pair<>') + tuple(args), keyexpr) if len(args) == 2 else seq.elem_key(args[0], keyexpr)
                    if ek is None:
                        ctx.undecided(R1, inst, 'cannot determine the key of the inserted element `%s`' % show(args[0]), l)
                        viol = True
                        continue
                    if ek != unver(K):
                        ctx.violation(R1, inst, 'the lookup searched for `%s` but the inserted element has key `%s`' % (show(K), show(ek)), l,
                                      key='%s|%s|%s|insert-other-key' % (R1, file, pname))
                        viol = True
                        continue
                    ctx.ok(R1, inst, '`%s` only after find_if(%s == %s) failed' % (what, show(keyexpr), show(K)), l)
                    counts['insert_ok'] += 1
                elif kind == 'member' and name in ORDER_OK:
                    nmut += 1
                    if name == 'erase':
                        args = [unver(a) for a in (ev.value or ())]
                        if len(args) == 2 and compacts and args[0] == compacts[-1][0] and args[1] == vend(S):
                            compacts[-1][1] = True
                elif kind == 'member' and name == 'resize':
                    nmut += 1
                    args = [unver(a) for a in (ev.value or ())]
                    okr = False
                    if compacts and args:
                        want = ('call', 'std::distance', None, vbegin(S), compacts[-1][0])
                        if args[0] == want:
                            compacts[-1][1] = True
                            okr = True
                    if not okr:
                        ctx.undecided(R2, inst, '`%s`: resize to a size that is not the distance to a stable_partition / remove_if result' % what, l)
                        viol = True
                elif kind == 'member':
                    nmut += 1
                    ctx.undecided(R2, inst, '`%s`: mutator `%s` is not in the vocabulary of order-preserving / reordering operations' % (what, name), l)
                    viol = True
                elif kind == 'member-sub':
                    pass       # operation on an element (value update), not on the sequence
                elif kind == 'algo':
                    if name in ALGO_READ or name.startswith('std::make_'):
                        continue
                    nmut += 1
                    if name in ALGO_COMPACT:
                        compacts.append([unver(ev.nf), False, ev, name])
                        vals = [unver(v) for v in ev.value]
                        if vals[0] != vbegin(S) or vals[1] != vend(S):
                            ctx.undecided(R2, inst, '`%s` does not run over the whole sequence' % what, l)
                            viol = True
                    elif name in ALGO_REORDER:
                        ctx.violation(R2, inst, '`%s` reorders the sequence: iteration / at_index no longer follow insertion order' % what, l,
                                      key='%s|%s|%s|reorders:%s' % (R2, file, pname, last(name)))
                        viol = True
                    else:
                        ctx.undecided(R2, inst, '`%s`: algorithm `%s` receives mutable iterators of the sequence and is not in the vocabulary' % (what, name), l)
                        viol = True
                elif kind == 'store':
                    lhs = ev.nf if ev.kind == 'store' else ev.place
                    if seq.is_elem(lhs):
                        nmut += 1
                        ctx.violation(R2, inst, '`%s` overwrites a whole element (swap-with-last style removal): the order of the remaining elements changes'
                                      % what, l, key='%s|%s|%s|element-overwritten' % (R2, file, pname))
                        viol = True
                    elif isinstance(lhs, tuple) and lhs[0] == 'field' and seq.is_elem(lhs[1]) and lhs[2] == 'first':
                        nmut += 1
                        ctx.undecided(R2, inst, '`%s` overwrites the key of a stored element' % what, l)
                        viol = True
            for c in compacts:
                if not c[1]:
                    ctx.violation(R2, inst, '`%s` is not followed by a truncation at the iterator it returns: the removed elements stay in the sequence'
                                  % tu.show(c[2].node), tu.loc(c[2].node), key='%s|%s|%s|compact-without-truncate' % (R2, file, pname))
                    viol = True
        counts['fn'] += 1
        if not viol:
            ctx.ok(R2, inst, '%d path(s), %d sequence mutation(s), all order-preserving' % (len(paths), nmut), loc, nontrivial=bool(nmut))
            counts['fn_ok'] += 1


# ============================================================================================
#  FlatMap: R-C10-3, R-C10-4
# ============================================================================================
def summary_sig(se, seq, f):
    """hashable signature of a function's behaviour: per path (conditions, sequence effects, result)"""
    paths = se.paths(f)
    sig = set()
    for p in paths:
        conds = frozenset((unver(c), pol) for c, pol, _ in p.conds)
        effs = tuple((k, n, tuple(unver(a) for a in (ev.value or ())) if not (k == 'store' and ev.kind == 'store') else (unver(ev.nf), unver(ev.value)))
                     for k, n, ev in seq.seq_events(p, False) if not (k == 'algo' and n in ALGO_READ))
        t = p.term
        res = (t[0], unver(t[1]) if t[0] == 'return' and t[1] is not None else (t[1] if t[0] == 'throw' else None))
        sig.add((conds, effs, res))
    return frozenset(sig)


def sig_show(sig):
    out = []
    for conds, effs, res in sorted(sig, key=repr):
        c = ' && '.join(('' if pol else '!') + show(x) for x, pol in sorted(conds, key=repr)) or 'always'
        e = '; '.join('%s(%s)' % (n, ', '.join(show(a) for a in args)) for k, n, args in effs)
        r = '%s %s' % (res[0], show(res[1]) if isinstance(res[1], tuple) else (res[1] or ''))
        out.append('[%s] %s => %s' % (c, e, r))
    return ' | '.join(out)


def canon_method(name):
    return {'cbegin': 'begin', 'cend': 'end', 'crbegin': 'rbegin', 'crend': 'rend'}.get(name, name)


def check_flatmap(ctx, tu, tag=''):
    R3, R4 = 'R-C10-3', 'R-C10-4'
    ctx.describe('R-C10-1', 'every insertion into the sequence is reached only on the failed edge of a lookup of the key being inserted, with no '
                            'change of the sequence in between (keys stay unique)')
    ctx.describe('R-C10-2', 'the sequence is changed only by order-preserving operations (append, stable_partition/remove_if + truncation, erase, '
                            'clear, reserve); reordering algorithms and whole-element overwrites are rejected')
    ctx.describe(R3, 'FlatMap: at() throws std::out_of_range exactly when the lookup fails and returns the found .second otherwise; operator[] '
                     'returns the found value or appends (key, VALUE()); contains = lookup != end; erase removes exactly the matching keys; '
                     'at_index/size/empty/clear/reserve forward to the sequence')
    ctx.describe(R4, 'const / non-const siblings and begin/cbegin-style accessors have identical path summaries')
    se = mk_se(tu)
    recs = [r for r in tu.records.values() if r.get('tmpl') == FM and not r.get('lambda')]
    counts = dict(insert=0, insert_ok=0, fn=0, fn_ok=0)
    n3 = n4 = 0
    nrec = 0
    for r in sorted(recs, key=lambda r: r['type']):
        fns = [f for f in tu.functions.values() if f.get('recid') == r['id'] and not f['dep'] and tu.cfg(f) is not None
               and not f.get('implicit') and not f.get('ctor') and not f.get('dtor')]
        if not fns:
            continue
        vf = [f for f in r['fields'] if f['ct'].startswith('std::vector<std::pair<')]
        if len(vf) != 1:
            ctx.broken('R-C10-1: %s does not have exactly one vector-of-pairs member' % r['type'])
            continue
        nrec += 1
        S = ('field', THIS, vf[0]['name'])
        seq = Seq(tu, se, r, S)
        fns.sort(key=lambda f: (f['l'], f['fty']))
        check_sequence_rules(ctx, tu, se, seq, fns, None, tag, counts)
        file = tu.fn_file(fns[0])
        keyexpr0 = ('field', ('lparam', 0), 'first')
        byname = {}
        for f in fns:
            byname.setdefault(last(strip_targs(f['q'])), []).append(f)
        for f in fns:
            name = last(strip_targs(f['q']))
            inst = inst_name(f) + tag
            pname = pattern_name(tu, f)
            loc = tu.fn_loc(f)
            try:
                paths = se.paths(f)
            except Unsupported as e:
                ctx.undecided(R3, inst, str(e), loc)
                continue
            p0 = ('param', 0, f['params'][0].get('name') or '') if f.get('params') else None
            probs, und = [], []

            def want_lookup(L, K, kx):
                if unver(K) != p0:
                    probs.append(('lookup-other-key', 'the lookup searches for `%s` instead of the argument `%s`' % (show(K), show(p0))))
                if kx != keyexpr0:
                    probs.append(('lookup-not-on-key', 'the lookup compares `%s` instead of the key member `.first`' % show(kx)))

            def no_effects(p, what):
                evs = [x for x in seq.seq_events(p, bool(f.get('const'))) if not (x[0] == 'algo' and x[1] in ALGO_READ)]
                if evs:
                    probs.append(('unexpected-mutation', '%s modifies the sequence: `%s`' % (what, tu.show(evs[0][2].node))))

            if name == 'at':
                n3 += 1
                for p in paths:
                    lc = seq.lookup_cond(p)
                    if lc is None:
                        probs.append(('unguarded', 'a path reaches `%s` without comparing the lookup result with end()'
                                      % (p.term[0] + (' ' + show(p.term[1]) if p.term[0] == 'return' and p.term[1] is not None else ''))))
                        continue
                    failed, L, kx, K, _ = lc
                    want_lookup(L, K, kx)
                    no_effects(p, 'at()')
                    if failed:
                        if p.term[0] != 'throw':
                            probs.append(('no-throw', 'the failed-lookup path does not throw (it %ss)' % p.term[0]))
                        elif p.term[1] != 'std::out_of_range':
                            probs.append(('wrong-exception', 'the failed-lookup path throws %s instead of std::out_of_range' % p.term[1]))
                    else:
                        if p.term[0] == 'throw':
                            probs.append(('throws-when-found', 'at() throws on the path where the key was found'))
                        elif p.term[0] != 'return' or unver(p.term[1]) != ('field', ('deref', L), 'second'):
                            rv = unver(p.term[1]) if p.term[0] == 'return' and p.term[1] is not None else None
                            (und if rv is None or has_unknown(rv) else probs).append(
                                ('wrong-element', 'the found path returns `%s` instead of the found element\'s .second' % (show(rv) if rv else p.term[0])))
            elif name == 'operator[]':
                n3 += 1
                for p in paths:
                    lc = seq.lookup_cond(p)
                    if lc is None:
                        probs.append(('unguarded', 'a path does not compare the lookup result with end()'))
                        continue
                    failed, L, kx, K, _ = lc
                    want_lookup(L, K, kx)
                    if not failed:
                        no_effects(p, 'operator[] (key found)')
                        rv = unver(p.term[1]) if p.term[0] == 'return' and p.term[1] is not None else None
                        if rv != ('field', ('deref', L), 'second'):
                            (und if rv is None or has_unknown(rv) else probs).append(
                                ('wrong-element', 'the found path returns `%s` instead of the found element\'s .second' % (show(rv) if rv else p.term[0])))
                    else:
                        evs = [x for x in seq.seq_events(p, bool(f.get('const'))) if not (x[0] == 'algo' and x[1] in ALGO_READ)]
                        apps = [x for x in evs if x[0] == 'member' and x[1] in APPEND]
                        if f.get('const'):
                            if p.term[0] != 'throw':
                                und.append(('const-index', 'const operator[] on a missing key neither throws nor can insert'))
                            continue
                        if len(apps) != 1 or len(evs) != 1:
                            probs.append(('no-single-append', 'the failed-lookup path performs %d sequence operation(s), expected exactly one append' % len(evs)))
                            continue
                        arg = unver(apps[0][2].value[0]) if apps[0][2].value else None
                        val = seq.elem_key(arg, ('field', ('lparam', 0), 'second')) if apps[0][1] == 'push_back' else \
                            (unver(apps[0][2].value[1]) if len(apps[0][2].value) == 2 else None)
                        if val is None:
                            und.append(('inserted-value', 'cannot see the value inserted for a missing key'))
                        elif not (val == ('const', 0) or (val[0] == 'construct' and len(val) == 2) or val == ('str', '""')):
                            und.append(('inserted-value', 'the value inserted for a missing key is `%s`, not VALUE()' % show(val)))
                        rv = p.term[1] if p.term[0] == 'return' else None
                        want = ('field', ('call', 'std::vector::back', S), 'second')
                        if rv is None or unver(rv) != want:
                            (und if rv is None or has_unknown(unver(rv)) else probs).append(
                                ('wrong-element', 'after appending, operator[] returns `%s` instead of the new last element\'s .second'
                                 % (show(rv) if rv is not None else p.term[0])))
                        else:
                            sv = versions_in(rv).get(S, set())
                            if any(v != se.version_in(p.ver, S) for v in sv):
                                probs.append(('wrong-element', 'the returned reference is taken before the element is appended'))
            elif name == 'contains':
                n3 += 1
                for p in paths:
                    no_effects(p, 'contains()')
                    rv = unver(p.term[1]) if p.term[0] == 'return' and p.term[1] is not None else None
                    okc = False
                    if isinstance(rv, tuple) and rv and rv[0] == 'not' and rv[1][0] == 'eq':
                        for x, y in ((rv[1][1], rv[1][2]), (rv[1][2], rv[1][1])):
                            if y == vend(S) and seq.match_lookup(x):
                                kx, K = seq.match_lookup(x)
                                want_lookup(x, K, kx)
                                okc = True
                    if not okc and isinstance(rv, tuple) and len(rv) == 6 and rv[:5] == ('call', 'std::any_of', None, vbegin(S), vend(S)) \
                            and isinstance(rv[5], tuple) and rv[5][0] == 'pred' and rv[5][1] == mk_eq(keyexpr0, p0):
                        okc = True
                    if not okc:
                        if isinstance(rv, tuple) and rv and rv[0] == 'eq' and vend(S) in rv[1:]:
                            probs.append(('inverted', 'contains() returns `%s` (true when the key is absent)' % show(rv)))
                        else:
                            (und if rv is None or has_unknown(rv) or len(paths) > 1 else probs).append(
                                ('wrong-value', 'contains() returns `%s` instead of lookup(key) != end' % (show(rv) if rv else p.term[0])))
            elif name == 'erase':
                n3 += 1
                for p in paths:
                    evs = [x for x in seq.seq_events(p, False) if not (x[0] == 'algo' and x[1] in ALGO_READ)]
                    compacts = [x for x in evs if x[0] == 'algo' and x[1] in ALGO_COMPACT]
                    lc = seq.lookup_cond(p)
                    if compacts:
                        kind, aname, ev = compacts[0]
                        vals = [unver(v) for v in ev.value]
                        pr = vals[2] if len(vals) > 2 else None
                        mode = ALGO_COMPACT[aname]
                        if mode == 'value' or not (isinstance(pr, tuple) and pr[0] == 'pred'):
                            und.append(('erase-predicate', 'predicate of `%s` not recognised' % tu.show(ev.node)))
                            continue
                        body = pr[1]
                        neg = False
                        if body[0] == 'not':
                            body, neg = body[1], True
                        if body[0] != 'eq':
                            und.append(('erase-predicate', 'predicate `%s` is not a comparison of the key' % show(pr)))
                            continue
                        a, b = body[1], body[2]
                        if contains(b, ('lparam', 0)):
                            a, b = b, a
                        if a != keyexpr0:
                            probs.append(('erase-predicate-key', 'erase compares `%s` instead of the key member `.first`' % show(a)))
                        elif b != p0:
                            probs.append(('erase-predicate-key', 'erase compares the key with `%s` instead of the argument' % show(b)))
                        # stable_partition keeps elements for which the predicate holds: keep = (first != key)
                        # remove_if drops elements for which the predicate holds: drop = (first == key)
                        elif (mode == 'keep') != neg:
                            probs.append(('erase-predicate-polarity', '`%s` with predicate `%s` removes the elements whose key is *different* from the argument'
                                          % (last(aname), show(pr))))
                        others = [x for x in evs if x is not compacts[0] and not (x[0] == 'member' and x[1] in ('resize', 'erase'))]
                        if others:
                            probs.append(('unexpected-mutation', 'erase also performs `%s`' % tu.show(others[0][2].node)))
                    elif lc is not None:
                        failed, L, kx, K, _ = lc
                        want_lookup(L, K, kx)
                        if failed:
                            no_effects(p, 'erase() of a missing key')
                        else:
                            if len(evs) != 1 or evs[0][1] != 'erase' or [unver(a) for a in evs[0][2].value] != [L]:
                                probs.append(('erase-not-found-iterator', 'erase of a present key does not erase exactly the found iterator'))
                    else:
                        und.append(('erase-shape', 'erase is neither stable_partition/remove_if + truncation nor a guarded single-iterator erase'))
            elif name in ('clear', 'reserve'):
                n3 += 1
                for p in paths:
                    evs = [x for x in seq.seq_events(p, False) if not (x[0] == 'algo' and x[1] in ALGO_READ)]
                    wantargs = [] if name == 'clear' else [p0]
                    if len(evs) != 1 or evs[0][0] != 'member' or evs[0][1] != name or [unver(a) for a in evs[0][2].value] != wantargs:
                        probs.append(('wrong-forward', '%s() does not forward to values.%s(%s)' % (name, name, show(p0) if wantargs else '')))
            elif name in ('size', 'empty', 'at_index'):
                n3 += 1
                for p in paths:
                    no_effects(p, name + '()')
                    rv = unver(p.term[1]) if p.term[0] == 'return' and p.term[1] is not None else None
                    if name == 'at_index':
                        okv = rv in (('call', 'std::vector::at', S, p0), ('elem', S, p0))
                    elif name == 'size':
                        okv = rv == ('call', 'std::vector::size', S)
                    else:
                        okv = rv in (('call', 'std::vector::empty', S), mk_eq(('const', 0), ('call', 'std::vector::size', S)))
                    if not okv:
                        (und if rv is None or has_unknown(rv) else probs).append(
                            ('wrong-value', '%s() returns `%s`' % (name, show(rv) if rv else p.term[0])))
            elif canon_method(name) in ('begin', 'end', 'rbegin', 'rend'):
                n3 += 1
                for p in paths:
                    no_effects(p, name + '()')
                    rv = unver(p.term[1]) if p.term[0] == 'return' and p.term[1] is not None else None
                    if rv != ('call', 'std::vector::' + canon_method(name), S):
                        (und if rv is None or has_unknown(rv) else probs).append(
                            ('wrong-value', '%s() returns `%s` instead of values.%s()' % (name, show(rv) if rv else p.term[0], canon_method(name))))
            elif name == 'lookup':
                n3 += 1
                for p in paths:
                    no_effects(p, 'lookup()')
                    rv = p.term[1] if p.term[0] == 'return' else None
                    m = seq.match_lookup(rv) if rv is not None else None
                    if m is None:
                        (und if rv is None or has_unknown(unver(rv)) else probs).append(
                            ('lookup-shape', 'lookup() returns `%s`, not find_if over the whole sequence with an equality predicate on the key'
                             % (show(rv) if rv is not None else p.term[0])))
                    else:
                        want_lookup(rv, m[1], m[0])
            else:
                continue
            if probs:
                for kind, why in sorted(set(probs)):
                    ctx.violation(R3, inst, why, loc, key='%s|%s|%s|%s' % (R3, file, pname, kind))
            elif und:
                for kind, why in sorted(set(und)):
                    ctx.undecided(R3, inst, why, loc)
            else:
                ctx.ok(R3, inst, sig_show(summary_sig(se, seq, f))[:300], loc)
        # ---- R-C10-4 siblings
        groups = {}
        for f in fns:
            name = canon_method(last(strip_targs(f['q'])))
            ptypes = tuple(p['ct'] for p in f.get('params', []))
            groups.setdefault((name, ptypes), []).append(f)
        for (name, ptypes), fs in sorted(groups.items()):
            if len(fs) < 2:
                continue
            n4 += 1
            inst = '%s::%s(%s) x%d%s' % (short(r['type']), name, ', '.join(ptypes), len(fs), tag)
            try:
                sigs = [(f, summary_sig(se, seq, f)) for f in fs]
            except Unsupported as e:
                ctx.undecided(R4, inst, str(e), tu.fn_loc(fs[0]))
                continue
            base = sigs[0]
            diff = [x for x in sigs[1:] if x[1] != base[1]]
            if diff:
                g = diff[0]
                ctx.violation(R4, inst, '`%s` and `%s` disagree: {%s} vs {%s}' % (inst_name(base[0]), inst_name(g[0]), sig_show(base[1])[:300], sig_show(g[1])[:300]),
                              tu.fn_loc(g[0]), key='%s|%s|%s::%s|siblings-disagree' % (R4, file, short(r['q']), name))
            else:
                ctx.ok(R4, inst, 'identical summaries: %s' % sig_show(base[1])[:200], tu.fn_loc(fs[0]))
    return dict(nrec=nrec, n3=n3, n4=n4, counts=counts)


# ============================================================================================
#  ParameterizedObject: R-C10-5 (+ R-C10-1/2 through the generic rules)
# ============================================================================================
def check_paramobj(ctx, tu, tag=''):
    R5 = 'R-C10-5'
    ctx.describe(R5, 'ParameterizedObject: findParam(name,false) never inserts and yields the found parameter or null; findParam(name,true) never '
                     'yields null and adds only a parameter of that name; hasParam/getParam use the non-inserting form; getParam sets query and '
                     'calls get<T>() exactly under param != null && is<T>(), else returns the default untouched; setParam stores into the '
                     'found-or-added parameter; removeParam erases only the found iterator; resetAllParamQueryStatus clears every element')
    se = mk_se(tu)
    rec = [r for r in tu.records.values() if r['q'] == PO]
    prec = [r for r in tu.records.values() if r['q'] == PARAM]
    if not rec or not prec:
        ctx.broken('R-C10-5: record %s / %s not found' % (PO, PARAM))
        return dict(n5=0, counts=dict(insert=0, insert_ok=0, fn=0, fn_ok=0))
    r, pr = rec[0], prec[0]
    vf = [f for f in r['fields'] if f['ct'].startswith('std::vector<std::shared_ptr<')]
    if len(vf) != 1:
        ctx.broken('R-C10-5: %s does not have exactly one vector-of-shared_ptr member' % PO)
        return dict(n5=0, counts=dict(insert=0, insert_ok=0, fn=0, fn_ok=0))
    S = ('field', THIS, vf[0]['name'])
    seq = Seq(tu, se, r, S)
    anyf = [f for f in pr['fields'] if f['ct'] == ANY]
    boolf = [f for f in pr['fields'] if f['ct'] == 'bool']
    strf = [f for f in pr['fields'] if f['ct'].startswith('std::basic_string<')]
    if len(anyf) != 1 or len(boolf) != 1 or len(strf) != 1:
        ctx.broken('R-C10-5: %s is expected to have one Any, one bool and one string member' % PARAM)
        return dict(n5=0, counts=dict(insert=0, insert_ok=0, fn=0, fn_ok=0))
    DATA, QUERY, NAME = anyf[0]['name'], boolf[0]['name'], strf[0]['name']
    keyexpr0 = ('field', ('deref', ('lparam', 0)), NAME)
    fns = [f for f in tu.functions.values() if f.get('recid') == r['id'] and not f['dep'] and tu.cfg(f) is not None
           and not f.get('implicit') and not f.get('ctor') and not f.get('dtor')]
    fns.sort(key=lambda f: (f['l'], f['fty']))
    counts = dict(insert=0, insert_ok=0, fn=0, fn_ok=0)
    check_sequence_rules(ctx, tu, se, seq, fns, None, tag, counts)
    n5 = 0
    FIND = PO + '::findParam'
    finders = [f for f in fns if strip_targs(f['q']) == FIND]
    if len(finders) != 1:
        ctx.broken('R-C10-5: %s not found (or overloaded)' % FIND)
        return dict(n5=0, counts=counts)
    finder = finders[0]
    ffile = tu.fn_file(finder)
    fpname = pattern_name(tu, finder)
    floc = tu.fn_loc(finder)

    def eval_finder(flag):
        """classify the paths of findParam(name, flag): list of (kind, why) problems, list of undecided"""
        probs, und = [], []
        K = ('param', 0, finder['params'][0].get('name') or '')
        try:
            paths = se.paths(finder, args=(K, ('const', flag)))
        except Unsupported as e:
            return [], [('paths', str(e))]
        for p in paths:
            evs = [x for x in seq.seq_events(p, False) if not (x[0] == 'algo' and x[1] in ALGO_READ)]
            lc = seq.lookup_cond(p)
            rv = p.term[1] if p.term[0] == 'return' else None
            rvu = unver(rv) if rv is not None else None
            if lc is None:
                probs.append(('unguarded', 'findParam(name, %s) has a path that never compares a lookup of the name with end()' % bool(flag)))
                continue
            failed, L, kx, Kx, _ = lc
            if unver(Kx) != K or kx != keyexpr0:
                probs.append(('lookup-other-key', 'findParam looks up `%s == %s` instead of the name argument in the name member' % (show(kx), show(Kx))))
            if not failed:
                if evs:
                    probs.append(('found-mutates', 'findParam modifies the list although the name was found: `%s`' % tu.show(evs[0][2].node)))
                found_vals = (('call', 'std::__shared_ptr::get', ('deref', L)), ('addr', ('deref', ('deref', L))))
                if rvu not in found_vals:
                    (und if rvu is None or has_unknown(rvu) else probs).append(
                        ('found-wrong-result', 'findParam returns `%s` for a found name instead of the found parameter' % (show(rvu) if rvu else p.term[0])))
            elif flag == 0:
                if evs:
                    probs.append(('read-inserts', 'findParam(name, false) modifies the parameter list (`%s`): hasParam / getParam would create parameters'
                                  % tu.show(evs[0][2].node)))
                if rvu != ('null',):
                    (und if rvu is None or has_unknown(rvu) else probs).append(
                        ('missing-not-null', 'findParam(name, false) returns `%s` for a missing name instead of nullptr' % (show(rvu) if rvu else p.term[0])))
            else:
                apps = [x for x in evs if x[0] == 'member' and x[1] in APPEND]
                if len(apps) != 1 or len(evs) != 1:
                    if not evs and rvu == ('null',):
                        probs.append(('no-insert-when-asked', 'findParam(name, true) returns nullptr for a missing name: setParam dereferences it'))
                    else:
                        probs.append(('no-single-append', 'findParam(name, true) performs %d list operation(s) for a missing name, expected one append' % len(evs)))
                    continue
                elem = unver(apps[0][2].value[0]) if apps[0][2].value else None
                back = ('call', 'std::vector::back', S)
                if rvu in (('call', 'std::__shared_ptr::get', back), ('addr', ('deref', back))):
                    sv = versions_in(rv).get(S, set())
                    if any(v != se.version_in(p.ver, S) for v in sv):
                        probs.append(('added-wrong-result', 'the returned element is read before the new parameter is appended'))
                elif elem is not None and rvu in (('call', 'std::__shared_ptr::get', elem), ('addr', ('deref', elem))) and not has_unknown(elem):
                    und.append(('added-wrong-result', 'findParam returns a pointer obtained from `%s`; cannot tell whether it is the appended object' % show(elem)))
                else:
                    (und if rvu is None or has_unknown(rvu) else probs).append(
                        ('added-wrong-result', 'findParam(name, true) returns `%s` after appending instead of the new last parameter' % (show(rvu) if rvu else p.term[0])))
        return probs, und

    for flag in (0, 1):
        n5 += 1
        inst = 'ParameterizedObject::findParam(name, %s)%s' % ('true' if flag else 'false', tag)
        probs, und = eval_finder(flag)
        if probs:
            for kind, why in sorted(set(probs)):
                ctx.violation(R5, inst, why, floc, key='%s|%s|%s|%s' % (R5, ffile, fpname, kind))
        elif und:
            for kind, why in sorted(set(und)):
                ctx.undecided(R5, inst, why, floc)
        else:
            ctx.ok(R5, inst, 'found -> the found parameter; missing -> %s' % ('append Param(name), return it' if flag else 'nullptr, list untouched'), floc)

    def find_calls(p):
        out = []
        for ev in p.events:
            if ev.kind == 'call' and base_name(ev.how or '') == FIND:
                out.append(ev)
        return out

    for f in fns:
        name = last(strip_targs(f['q']))
        if f is finder:
            continue
        inst = inst_name(f) + tag
        pname = pattern_name(tu, f)
        loc = tu.fn_loc(f)
        file = tu.fn_file(f)
        try:
            paths = se.paths(f)
        except Unsupported as e:
            ctx.undecided(R5, inst, str(e), loc)
            continue
        p0 = ('param', 0, f['params'][0].get('name') or '') if f.get('params') else None
        p1 = ('param', 1, f['params'][1].get('name') or '') if len(f.get('params', [])) > 1 else None
        probs, und = [], []

        def finder_call(flag):
            return ('call', FIND, THIS, p0, ('const', flag))

        if name == 'hasParam':
            n5 += 1
            for p in paths:
                rv = unver(p.term[1]) if p.term[0] == 'return' and p.term[1] is not None else None
                if rv == mk_not(mk_eq(('null',), finder_call(0))):
                    pass
                elif rv == mk_not(mk_eq(('null',), finder_call(1))):
                    probs.append(('read-inserts', 'hasParam calls findParam(name, true): asking for a parameter creates it'))
                elif rv == mk_eq(('null',), finder_call(0)):
                    probs.append(('inverted', 'hasParam returns true when the parameter is absent'))
                else:
                    (und if rv is None or has_unknown(rv) else probs).append(('wrong-value', 'hasParam returns `%s`' % (show(rv) if rv else p.term[0])))
        elif name == 'getParam':
            n5 += 1
            T = (f.get('targs') or ['?'])[0]
            P = finder_call(0)
            obj = ('deref', P)
            qplace = ('field', obj, QUERY)
            dplace = ('field', obj, DATA)
            is_t = ('call', '%s::is{%s}' % (ANY, T), dplace)
            get_t = ('call', '%s::get{%s}' % (ANY, T), dplace)
            for p in paths:
                fc = find_calls(p)
                for ev in fc:
                    a = [unver(x) for x in (ev.value or ())]
                    if len(a) == 2 and a[1] == ('const', 1):
                        probs.append(('read-inserts', 'getParam calls findParam(name, true): reading a parameter creates it'))
                    elif len(a) != 2 or a[0] != p0 or a[1] != ('const', 0):
                        und.append(('finder-args', 'findParam is called with `%s`' % ', '.join(show(x) for x in a)))
                stores = [ev for ev in p.events if ev.kind == 'store']
                qstores = [ev for ev in stores if ev.nf == qplace]
                other_stores = [ev for ev in stores if ev.nf != qplace and ev.place is None]
                nonnull = p.cond_of(mk_eq(('null',), P)) is False
                typed = p.cond_of(is_t) is True
                rv = unver(p.term[1]) if p.term[0] == 'return' and p.term[1] is not None else None
                uses_get = rv is not None and bool(find_all(rv, lambda t: t[0] == 'call' and isinstance(t[1], str) and t[1].startswith(ANY + '::get')))
                deref_any = [ev for ev in p.events if ev.kind == 'call' and ev.place is not None and contains(ev.place, obj)]
                wrong_is = [c for c, pol, _ in p.conds if isinstance(unver(c), tuple) and unver(c)[0] == 'call'
                            and str(unver(c)[1]).startswith(ANY + '::is{') and unver(c) != is_t]
                if wrong_is:
                    probs.append(('type-test-other-type', 'getParam<%s> tests `%s`' % (T, show(unver(wrong_is[0])))))
                if other_stores:
                    und.append(('other-store', 'getParam writes `%s`' % show(other_stores[0].nf)))
                if nonnull and typed:
                    if len(qstores) != 1 or unver(qstores[0].value) != ('const', 1):
                        probs.append(('query-not-set', 'a successful typed read does not set `%s = true`' % QUERY))
                    if rv != get_t:
                        (und if rv is None or has_unknown(rv) else probs).append(
                            ('wrong-result', 'a successful typed read returns `%s` instead of data.get<%s>()' % (show(rv) if rv else p.term[0], T)))
                else:
                    why = 'the parameter may be null' if not nonnull else 'its stored type was not tested to be exactly %s' % T
                    if deref_any and not nonnull:
                        probs.append(('null-deref', 'the result of findParam is dereferenced (`%s`) on a path where it may be null' % tu.show(deref_any[0].node)))
                    if qstores:
                        probs.append(('query-set-unguarded', '`%s` is written on a path where %s' % (QUERY, why)))
                    if uses_get:
                        probs.append(('get-unguarded', 'data.get<%s>() is reached on a path where %s' % (T, why)))
                    elif rv != p1:
                        (und if rv is None or has_unknown(rv) else probs).append(
                            ('default-not-returned', 'on a path where %s getParam returns `%s` instead of the caller\'s default' % (why, show(rv) if rv else p.term[0])))
        elif name == 'setParam':
            n5 += 1
            T = (f.get('targs') or ['?'])[0]
            for p in paths:
                fc = find_calls(p)
                if len(fc) != 1:
                    und.append(('finder', 'setParam calls findParam %d times' % len(fc)))
                    continue
                a = [unver(x) for x in (fc[0].value or ())]
                if len(a) == 2 and a[0] == p0 and a[1] == ('const', 0):
                    probs.append(('no-insert-when-asked', 'setParam calls findParam(name, false): a new name is never created (null is dereferenced)'))
                    continue
                if len(a) != 2 or a[0] != p0 or a[1] != ('const', 1):
                    und.append(('finder-args', 'findParam is called with `%s`' % ', '.join(show(x) for x in a)))
                    continue
                target = ('deref', finder_call(1))
                # the assignment into the Any member: directly, or through Param::set
                assigns = []
                for ev in p.events:
                    if ev.kind != 'call':
                        continue
                    h = base_name(ev.how or '')
                    if h == ANY + '::operator=' and ev.place is not None:
                        assigns.append((ev.place, unver(ev.value[0]) if ev.value else None))
                    elif h == PARAM + '::set' and ev.place is not None and not ev.inlined:
                        callee = tu.callee_fn(ev.node)
                        if callee is None or tu.cfg(callee) is None:
                            und.append(('set', 'Param::set has no analysable body'))
                            continue
                        try:
                            sp = se.paths(callee, this=ev.place, args=tuple(unver(x) for x in ev.value))
                        except Unsupported as e:
                            und.append(('set', str(e)))
                            continue
                        for q in sp:
                            for e2 in q.events:
                                if e2.kind == 'call' and base_name(e2.how or '') == ANY + '::operator=' and e2.place is not None:
                                    assigns.append((e2.place, unver(e2.value[0]) if e2.value else None))
                if len(assigns) != 1:
                    (und if und else probs).append(('no-single-store', 'setParam performs %d assignment(s) to a parameter value, expected one' % len(assigns)))
                    continue
                place, val = assigns[0]
                if place != ('field', target, DATA):
                    probs.append(('store-other-param', 'the value is stored into `%s` instead of the `%s` of the parameter found-or-added under the name' % (show(place), DATA)))
                if val != p1:
                    probs.append(('store-other-value', 'the stored value is `%s` instead of the argument' % show(val)))
        elif name == 'removeParam':
            n5 += 1
            for p in paths:
                evs = [x for x in seq.seq_events(p, False) if not (x[0] == 'algo' and x[1] in ALGO_READ)]
                lc = seq.lookup_cond(p)
                compacts = [x for x in evs if x[0] == 'algo' and x[1] in ALGO_COMPACT]
                if compacts:
                    kind, aname, ev = compacts[0]
                    vals = [unver(v) for v in ev.value]
                    pr_ = vals[2] if len(vals) > 2 else None
                    body = pr_[1] if isinstance(pr_, tuple) and pr_[0] == 'pred' else None
                    neg = False
                    if body is not None and body[0] == 'not':
                        body, neg = body[1], True
                    if body is None or body[0] != 'eq':
                        und.append(('erase-predicate', 'predicate of `%s` not recognised' % tu.show(ev.node)))
                        continue
                    a, b = body[1], body[2]
                    if contains(b, ('lparam', 0)):
                        a, b = b, a
                    if a != keyexpr0 or b != p0:
                        probs.append(('erase-predicate-key', 'removeParam compares `%s` with `%s`' % (show(a), show(b))))
                    elif (ALGO_COMPACT[aname] == 'keep') != neg:
                        probs.append(('erase-predicate-polarity', 'removeParam removes the parameters whose name is different from the argument'))
                    continue
                if lc is None:
                    if evs:
                        probs.append(('erase-unguarded', '`%s` is not guarded by a comparison of the lookup result with end()' % tu.show(evs[0][2].node)))
                    else:
                        und.append(('shape', 'removeParam has a path without lookup'))
                    continue
                failed, L, kx, Kx, _ = lc
                if unver(Kx) != p0 or kx != keyexpr0:
                    probs.append(('lookup-other-key', 'removeParam looks up `%s == %s`' % (show(kx), show(Kx))))
                if failed:
                    if evs:
                        probs.append(('erase-when-missing', 'removeParam modifies the list (`%s`) although the name was not found' % tu.show(evs[0][2].node)))
                else:
                    if len(evs) != 1 or evs[0][1] != 'erase':
                        probs.append(('not-erased', 'removeParam does not erase the found parameter (%d list operations)' % len(evs)))
                    elif [unver(a) for a in evs[0][2].value] != [L]:
                        probs.append(('erase-not-found-iterator', 'removeParam erases `%s` instead of exactly the found iterator'
                                      % ', '.join(show(unver(a)) for a in evs[0][2].value)))
        elif name == 'resetAllParamQueryStatus':
            n5 += 1
            check_reset_loop(tu, se, seq, f, paths, QUERY, probs, und)
        elif name in ('params_begin', 'params_end'):
            n5 += 1
            for p in paths:
                rv = unver(p.term[1]) if p.term[0] == 'return' and p.term[1] is not None else None
                want = vbegin(S) if name == 'params_begin' else vend(S)
                if rv != want:
                    (und if rv is None or has_unknown(rv) else probs).append(('wrong-value', '%s returns `%s`' % (name, show(rv) if rv else p.term[0])))
        else:
            continue
        if probs:
            for kind, why in sorted(set(probs)):
                ctx.violation(R5, inst, why, loc, key='%s|%s|%s|%s' % (R5, file, pname, kind))
        elif und:
            for kind, why in sorted(set(und)):
                ctx.undecided(R5, inst, why, loc)
        else:
            ctx.ok(R5, inst, '%d path(s) conform' % len(paths), loc)
    return dict(n5=n5, counts=counts)


def check_reset_loop(tu, se, seq, f, paths, QUERY, probs, und):
    """every path is k >= 0 iterations of: test cursor against the end, store query=false into the cursor's element, advance by one"""
    S = seq.S
    its = [p for p in paths if any(ev.kind == 'store' for ev in p.events)]
    if not its:
        probs.append(('no-reset', 'no path writes `%s`' % QUERY))
        return
    zero = [p for p in paths if not any(ev.kind == 'store' for ev in p.events)]
    if not zero:
        und.append(('loop-shape', 'no path skips the loop body'))
    for p in paths:
        if p.term[0] != 'end' and not (p.term[0] == 'return' and p.term[1] is None):
            und.append(('loop-shape', 'a path ends with %s' % p.term[0]))
            return
        # split events into iterations by the loop-test conditions
        stores = [ev for ev in p.events if ev.kind == 'store']
        incs = [ev for ev in p.events if ev.kind == 'mutate' and ev.place is not None and ev.place[0] == 'var']
        tests = p.conds
        if len(tests) != len(stores) + 1:
            probs.append(('conditional-reset', 'the loop has %d test(s) for %d write(s) of `%s`: some element can be skipped or the loop left early'
                          % (len(tests), len(stores), QUERY)))
            return
        cursor_iter = None
        for i, (c, pol, _) in enumerate(tests):
            cu = unver(c)
            last_test = (i == len(tests) - 1)
            # iterator form: cursor == end(S); index form: cursor < size(S)
            form = None
            cur = None
            if isinstance(cu, tuple) and cu[0] == 'eq' and vend(S) in cu[1:]:
                cur = [x for x in cu[1:] if x != vend(S)]
                cur = cur[0] if cur else None
                form = 'iter'
                entered = (pol is False)
            elif isinstance(cu, tuple) and cu[0] == 'lt' and cu[2] == ('call', 'std::vector::size', S):
                cur = cu[1]
                form = 'index'
                entered = (pol is True)
            elif cu == mk_eq(('const', 0), ('call', 'std::vector::size', S)):
                cur = ('const', 0)          # `0 < size()` is normalised to `size() != 0`
                form = 'index'
                entered = (pol is False)
            else:
                und.append(('loop-shape', 'loop test `%s` is not a comparison of a cursor with the end / size of the list' % show(cu)))
                return
            if entered == last_test:
                und.append(('loop-shape', 'unexpected polarity of loop test `%s`' % show(cu)))
                return
            if i == 0:
                start = vbegin(S) if form == 'iter' else ('const', 0)
                if cur != start:
                    (und if has_unknown(cur) else probs).append(('loop-start', 'the loop starts at `%s` instead of the first element' % show(cur)))
                    return
            if not last_test:
                st = stores[i]
                elem = ('deref', cur) if form == 'iter' else ('elem', S, cur)
                if st.conds_n != i + 1:
                    probs.append(('conditional-reset', 'the write of `%s` is conditional' % QUERY))
                    return
                if st.nf != ('field', ('deref', elem), QUERY):
                    (und if has_unknown(st.nf) and not contains(st.nf, QUERY) else probs).append(
                        ('reset-other-element', 'the loop writes `%s` instead of the `%s` of the current element' % (show(st.nf), QUERY)))
                    return
                if unver(st.value) != ('const', 0):
                    probs.append(('reset-value', '`%s` is set to `%s` instead of false' % (QUERY, show(unver(st.value)))))
                    return
        ninc = len([ev for ev in incs if ev.how in ('operator++', '++')])
        if ninc != len(stores) or len(incs) != ninc:
            (probs if all(ev.how in ('operator++', '++', 'operator--', '--', 'operator+=') for ev in incs) else und).append(
                ('loop-step', 'the cursor is advanced %d time(s) for %d element(s) written' % (len(incs), len(stores))))
            return


# ============================================================================================
def run(ctx):
    ctx.assume('KEY::operator== is an equivalence relation and std::string comparison is value comparison')
    ctx.assume('std::vector, std::find_if, std::stable_partition, std::make_shared behave as documented; Any::is<T>/get<T> as decided by C09')
    jobs = [dict(unit='drivers/c10_maps.cpp', config='TBB')]
    if ctx.tier == 'thorough':
        jobs.append(dict(unit='drivers/c10_maps.cpp', config='TBB', std='gnu++17', extra=('-DRKVERIF_C10_WIDE',)))
    tus = ctx.front.parse_many(jobs)
    for i, tu in enumerate(tus):
        tag = '' if i == 0 else ' [gnu++17,wide]'
        a = check_flatmap(ctx, tu, tag)
        b = check_paramobj(ctx, tu, tag)
        ctx.floor('R-C10-3', a['n3'], 40, '23 members x 2 key/value instantiations analysed against their role')
        ctx.floor('R-C10-4', a['n4'], 12, 'sibling groups at, at_index, begin, end, rbegin, rend, lookup x 2 instantiations')
        ctx.floor('R-C10-1', a['counts']['insert'] + b['counts']['insert'], 3, 'insertion sites: FlatMap::operator[] x 2 instantiations + findParam')
        ctx.floor('R-C10-2', a['counts']['fn'] + b['counts']['fn'], 50, 'every member of both classes is scanned for sequence mutations')
        ctx.floor('R-C10-5', b['n5'], 13, 'findParam x2 flags, hasParam, getParam x3, setParam x3, removeParam, resetAll, params_begin/end')
    # observation: the const operator[] cannot be instantiated
    rc, err = ctx.front.compile_check('witness/c10_flatmap_const_index.cpp')
    if rc != 0:
        m = re.search(r'error: (.*)', err)
        ctx.ok('R-C10-4', 'FlatMap::operator[] const (witness/c10_flatmap_const_index.cpp)',
               'observation: the const overload cannot be instantiated (%s); it is dead code and is not analysed' % (m.group(1)[:120] if m else 'compile error'),
               'rkcommon/containers/FlatMap.h', nontrivial=False)
        ctx.note('observation: FlatMap::operator[] const does not compile when instantiated (push_back on a const vector); dead code')
    else:
        tu = ctx.front.parse('witness/c10_flatmap_const_index.cpp', 'TBB')
        check_flatmap(ctx, tu, ' [const operator[] witness]')
    from rkstatic import selftest
    selftest.run(ctx)
