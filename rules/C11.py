"""C11 - array wrappers (AbstractArray, ArrayView, OwnedArray, FixedArray, FixedArrayView, DataView) stay in
bounds and keep the ownership they document.

Decided statically, on the CFG paths of every instantiated member (drivers/c11_arrays.cpp; path summaries
and expression normal forms from rkstatic/x_symnf.py):
  R-C11-1  provenance of the view pointer: every argument of AbstractArray::setPtr in every subclass is
           classified (nullptr / caller's buffer / data() of a by-value member container / get() of a
           shared_ptr member / through a shared_ptr<OtherWrapper> or by-value wrapper member).  A class with an
           owner member takes its view only from that owner of the same object; a class that reaches its
           storage through a shared_ptr to another wrapper requires that wrapper to have no public operation
           that replaces its allocation.
  R-C11-2  re-derive after mutation (typestate over every path): after any statement that can reallocate,
           replace or resize the owner member, a setPtr whose arguments are read from the owner *after* that
           statement is reached before the function returns; a pointer read before the mutation is stale.
  R-C11-3  a class whose view pointer aliases storage uniquely owned by a by-value member has no
           compiler-generated copy / move operation.
  R-C11-4  AbstractArray: at() dereferences only under `offset < size()` and throws otherwise; operator[],
           begin/end/data/size/cbegin/cend/operator bool/operator T* and setPtr agree on the stored range, whether it
           is kept as (pointer, count) or as (begin pointer, end pointer): on every path of setPtr the extent equals
           the size argument, i.e. both ends derive from the same base pointer value.
  R-C11-7  a reference-to-element or pointer-to-elements parameter of a public member of an owning wrapper may
           designate the array's own block: it is not read (through) after a call that can reallocate, release or
           destroy that block - directly, through a member that does so, or inside a private helper it is handed to.
  R-C11-5  DataView::operator[] is `*(const T*)(ptr + index*stride)` with ptr of byte type on every returning
           path - the result is a reference into the viewed storage, never to a member of the view (scratch /
           cache slot); constructor and reset store both arguments.  Extra members are tolerated.
  R-C11-6  extent agreement: the view size equals the owner's size (vector: size(); new T[n]: n), memcpy
           into the allocation has length n*sizeof(T), a non-null source test guards it, an owning
           array constructed / assigned from a source copies the whole source range, and the copy goes into a block
           allocated on the same path (never into the block that copies of the array and views onto it share).
Also: for a by-value container owner the view size is the owner's own length - size() of it, the extent it was just
given, or a value a path condition equates with size(); a caller-chosen size against an owner not resized to it is a
violation (R-C11-6).  A new-expression is a point where the function can be left by an exception: an existing object
whose owner was already released / changed at that point is a violation (R-C11-2).  A DataView (re)initialiser that takes
only the data pointer sets the stride to the dense default; leaving the previous stride is a violation (R-C11-5).
R-C11-2 also: setPtr(<the pointer the base already holds>, n) after an owner change is accepted only when the path establishes that
this stored pointer equals the owner's data() (non-const helpers of AbstractArray other than setPtr are followed).  R-C11-6 also: a
member that adopts a source on some paths does so on every returning path (no early exit decided by the source alone).
R-C11-5 also decides typed indexing through a member precomputed from the stride: ((const T*)ptr)[index * (stride / sizeof(T))]
under a test stride % A == 0 is the element at ptr + index*stride only if A is a multiple of sizeof(T).
  R-C11-8  the destructor of AbstractArray - the interface owning wrappers are handled and destroyed through - is virtual, or not
           publicly accessible.
Calls to helpers (private / static members, members another member forwards to, delegating constructors, free
functions) are followed: their paths are spliced into the caller's path summary, so the rules see the same events
whether a statement is written in place or moved into a helper.
"""
import re

from rkstatic.x_symnf import (SymExec, Unsupported, unver, versions_in, show, last, strip_targs, contains,
                              find_all, mk_comm, mk_eq)

LEVEL = 'other'
EXPLANATION = (
    "Path summaries (clang CFG, every path, loops once) of every member of the six array wrappers, instantiated "
    "for element sizes 1, 4 and 12 (thorough: also 2 and 8; -std=c++11 and gnu++17), are reduced to normal forms. "
    "Decided for all histories at once, as per-operation invariants: where the view pointer of each wrapper comes "
    "from and that an owning wrapper only ever exposes its own storage; that every operation which can move, "
    "replace or resize the owned storage re-derives (pointer, size) from it before returning; that no wrapper "
    "whose pointer aliases a by-value member is copied member-wise; the bounds guard of at(); the byte arithmetic "
    "of DataView; allocation size = copy length = view size for FixedArray / OwnedArray. Not decided: the "
    "contents after a sequence of operations (only extents and lifetimes), preconditions on caller-supplied "
    "(pointer, size) pairs and on FixedArrayView's (offset, size), exceptions thrown by allocation.")

NS = 'rkcommon::utility::'
ABS = NS + 'AbstractArray'
DATAVIEW = NS + 'DataView'
SETPTR = ABS + '::setPtr'

MUT_EMPTY = {'clear'}
MUT_KNOWN = {'operator=', 'assign', 'resize', 'reserve', 'shrink_to_fit', 'push_back', 'emplace_back', 'insert',
             'emplace', 'erase', 'pop_back', 'swap', 'reset', 'clear'}
THROWING_REFILL = {'insert', 'push_back', 'emplace_back', 'emplace', 'resize', 'assign', 'reserve'}
INT_BITS = {'unsigned long': 64, 'long': 64, 'unsigned long long': 64, 'long long': 64, 'unsigned int': 32, 'int': 32, 'unsigned short': 16,
            'short': 16, 'unsigned char': 8, 'signed char': 8, 'char': 8}
INT_TYPES = {'unsigned long', 'unsigned int', 'unsigned long long', 'long', 'int', 'long long', 'unsigned short', 'short'}
BYTE_PTR = {'const unsigned char *', 'unsigned char *', 'const char *', 'char *', 'const std::byte *', 'std::byte *',
            'const signed char *', 'signed char *'}


def follow_c11(f):
    """helper calls whose paths are spliced into the caller's summary: members of the wrapper classes and of DataView
    (private helpers such as syncView / assignCopy / allocate, and public members another member forwards to) and free
    functions of rkcommon; AbstractArray's own members stay named calls (setPtr is the event the rules are about, the
    accessors are single-expression functions whose value is substituted anyway)"""
    rec = f.get('rec')
    if rec == ABS:
        # non-const helpers of the base other than setPtr itself (e.g. a setSize() that forwards to setPtr) are followed, so that the
        # setPtr they end in is seen with its arguments; constructors / assignment of the base are events of their own
        return not f.get('const') and not f.get('ctor') and not f.get('dtor') and not f.get('assign') \
            and last(strip_targs(f['q'])) != 'setPtr'
    if rec:
        return rec.startswith(NS)
    return f['q'].startswith('rkcommon::')


def flatten_names(tu):
    """data members of AbstractArray<T> that hold the viewed range as one small aggregate value (struct { T *first; size_t count; }):
    the rules read its members as members `items.first` / `items.count` of the array itself"""
    out = set()
    for r in tu.records.values():
        if r.get('tmpl') == ABS and len(r.get('fields', [])) == 1:
            inner = tu.records_by_type.get(r['fields'][0]['ct'])
            if inner is not None and 1 < len(inner.get('fields', [])) <= 2 and not inner.get('bases') \
                    and all(f_['ct'].endswith('*') or f_['ct'] in INT_TYPES for f_ in inner['fields']):
                out.add(r['fields'][0]['name'])
    return out


def mk_se(tu, **kw):
    return SymExec(tu, own=lambda f: f['q'].startswith('rkcommon::'), inline_stmt=kw.pop('inline_stmt', follow_c11), flatten=flatten_names(tu), **kw)


def is_followed_helper(tu, f, class_fns, follow):
    """private member that the path summariser splices into its callers and that some other member of the class calls:
    it is never an entry point, so it is analysed in its callers' context only"""
    if f.get('access') != 'private' or f.get('ctor') or f.get('dtor') or not follow(f):
        return False
    for g_ in class_fns:
        if g_ is f:
            continue
        cfg = tu.cfg(g_)
        if cfg is None:
            continue
        for b, i, x in cfg.stmts():
            if x.get('kind') in ('CXXMemberCallExpr', 'CallExpr', 'CXXOperatorCallExpr'):
                sd = tu.sd(x)
                if (sd.get('def') or sd.get('d')) == f['id']:
                    return True
    return False


def norm_type(t):
    return t.replace('const ', '').replace('&', '').strip()


def short(q):
    return q.replace(NS, '')


def pattern_name(tu, f):
    """class::member + type as written in the template pattern (no template arguments, no line numbers)"""
    p = tu.functions.get(f.get('pat')) if f.get('pat') else None
    if p is not None:
        q = strip_targs(p['q'])
        return '%s %s' % (short(q), p['fty'])
    q = strip_targs(f['q'])
    fty = strip_targs(f['fty'])
    kind = f.get('ctor') or f.get('assign')
    if f.get('implicit') or f.get('defaulted'):
        what = 'copy' if kind == 'copy' else 'move' if kind == 'move' else 'default'
        return '%s <compiler-generated %s %s>' % (short(q), what, 'assignment' if f.get('assign') else 'constructor')
    return '%s %s' % (short(q), fty)


def inst_name(f):
    return '%s %s' % (short(f['q']), f['fty'])


# ============================================================================================
#  class model
# ============================================================================================
class Model:
    """wrapper records of one TU: base fields, owner members, tracked types"""

    def __init__(self, tu):
        self.tu = tu
        self.wrappers = {}     # canonical record type -> record (subclasses of AbstractArray<T>)
        self.bases = {}        # canonical record type of AbstractArray<T> -> (record, begin member, normal form of the element count)
        self.reps = {}         # canonical record type of AbstractArray<T> -> representation (see discover)
        self.unrecognised = []
        for r in tu.records.values():
            if r.get('lambda'):
                continue
            if r.get('tmpl') == ABS:
                rep = self.discover(r)
                if rep is not None:
                    self.bases[r['type']] = (r, rep['P'], rep['size'])
                    self.reps[r['type']] = rep
                else:
                    self.unrecognised.append(r)
            elif any(b.startswith(ABS + '<') for b in r.get('bases', [])):
                self.wrappers[r['type']] = r

    def discover(self, r):
        """representation of the viewed range in AbstractArray<T>: (begin pointer, count) or (begin pointer, end pointer).
        dict(P=begin member, N=count member|None, E=end member|None, size=normal form of the number of elements,
        end=normal form of the end pointer), or None when the members do not have one of these two shapes"""
        this = ('this',)
        fields = r['fields']
        if len(fields) == 1 and fields[0]['name'] in flatten_names(self.tu):
            inner = self.tu.records_by_type[fields[0]['ct']]
            fields = [dict(f_, name='%s.%s' % (fields[0]['name'], f_['name'])) for f_ in inner['fields']]
        pf = [f for f in fields if f['ct'].endswith('*')]
        nf_ = [f for f in fields if f['ct'] in INT_TYPES]
        if len(fields) != len(pf) + len(nf_):
            return None
        if len(pf) == 1 and len(nf_) == 1:
            P, N = pf[0]['name'], nf_[0]['name']
            return dict(P=P, N=N, E=None, size=('field', this, N), end=mk_comm('add', [('field', this, P), ('field', this, N)]))
        if len(pf) == 2 and not nf_:
            # which of the two is the begin pointer: the one begin() returns
            se = SymExec(self.tu, own=lambda f: f['q'].startswith('rkcommon::'), flatten=flatten_names(self.tu))
            begins = set()
            for f in self.tu.functions.values():
                if f.get('recid') == r['id'] and not f['dep'] and self.tu.cfg(f) is not None and last(strip_targs(f['q'])) == 'begin':
                    try:
                        for p in se.paths(f):
                            if p.term[0] == 'return' and p.term[1] is not None:
                                begins.add(unver(p.term[1]))
                    except Unsupported:
                        return None
            names = {f['name'] for f in pf}
            if len(begins) == 1:
                b = begins.pop()
                if isinstance(b, tuple) and b[:2] == ('field', this) and b[2] in names:
                    P = b[2]
                    E = (names - {P}).pop()
                    return dict(P=P, N=None, E=E, size=('sub', ('field', this, E), ('field', this, P)), end=('field', this, E))
        return None

    def base_of(self, r):
        for b in r.get('bases', []):
            if b in self.bases:
                return self.bases[b]
        return None

    def elem(self, r):
        ta = r.get('targs') or [{}]
        return ta[0]

    def owners(self, r):
        """owner members of a wrapper record: [(name, kind, pointee/None)], kind in
        vec (by-value container, storage uniquely owned) | sp_alloc (shared_ptr<T> to the allocation) |
        up_alloc (unique_ptr) | sp_wrapper (shared_ptr to another wrapper) | wrapper (by-value wrapper) | sp_other"""
        out = []
        et = self.elem(r).get('t')
        for f in r['fields']:
            ct = f['ct']
            if ct.startswith('std::vector<') or ct.startswith('std::array<') or ct.startswith('std::deque<') or \
                    ct.startswith('std::basic_string<'):
                out.append((f['name'], 'vec', None))
            elif ct.startswith('std::shared_ptr<') or ct.startswith('std::unique_ptr<'):
                inner = ct[ct.index('<') + 1:ct.rindex('>')].strip()
                inner0 = inner.split(',')[0].strip() if ct.startswith('std::unique_ptr<') else inner
                if inner in self.wrappers:
                    out.append((f['name'], 'sp_wrapper', inner))
                elif inner0 in (et, '%s[]' % et):
                    out.append((f['name'], 'sp_alloc' if ct.startswith('std::shared_ptr<') else 'up_alloc', None))
                else:
                    out.append((f['name'], 'sp_other', inner))
            elif ct in self.wrappers:
                out.append((f['name'], 'wrapper', ct))
        return out

    def shares_storage(self, r, seen=()):
        """does a member-wise copy of r designate the same storage as the original (so that the copied view
        pointer stays valid for as long as the copy lives)?"""
        if r['type'] in seen:
            return False
        if getattr(self, 'copy_sharing', {}).get(r['type']) is False:
            return False        # its user-provided copy operations give the copy a block of its own
        for name, kind, inner in self.owners(r):
            if kind in ('vec', 'up_alloc', 'sp_other'):
                return False
            if kind == 'wrapper':
                w = self.wrappers.get(inner)
                if w is None or not self.shares_storage(w, seen + (r['type'],)):
                    return False
        return True


# ============================================================================================
#  R-C11-1 / 2 / 6 : typestate over path summaries
# ============================================================================================
class Finding:
    def __init__(self, rule, kind, why, node, undecided=False):
        self.rule, self.kind, self.why, self.node, self.undecided = rule, kind, why, node, undecided


class WrapperAnalysis:
    def __init__(self, ctx, tu, model):
        self.ctx = ctx
        self.tu = tu
        self.m = model
        self.se = mk_se(tu)
        self.memo = {}
        self.prov = {}          # class tmpl -> set of provenance kinds seen
        self.mutators = {}      # record type -> [(fn, how)] public non-constructor functions that dirty the owner
        self.nsetptr = 0
        self.nmut = 0
        self.nmemcpy = 0

    # ---- description of a value written into an owner member
    def describe(self, val):
        v = unver(val)
        if not isinstance(v, tuple) or not v:
            return ('unknown', v)
        if v in (('definit',), ('null',)):
            return ('empty',)
        if v[0] == 'construct':
            cty = v[1]
            args = [a for a in v[2:]]
            if not args or args == [('null',)]:
                return ('empty',)
            if cty.startswith('std::shared_ptr<') or cty.startswith('std::unique_ptr<'):
                if isinstance(args[0], tuple) and args[0][0] == 'new':
                    return ('new', args[0][2], args[0][1])
                return ('unknown', v)
            if cty.startswith('std::vector<'):
                if len(args) == 1:
                    a0 = args[0]
                    if not (isinstance(a0, tuple) and a0[0] == 'construct'):
                        return ('sized', a0)        # vector(n): n value-initialised elements
                if len(args) == 2:
                    a, b = args
                    if isinstance(a, tuple) and a[0] == 'call' and last(a[1]) == 'begin':
                        c = a[2]
                        if b == ('call', a[1].rsplit('::', 1)[0] + '::end', c):
                            return ('copy', c)
                        return ('bad-range', a, b)
                    if isinstance(b, tuple) and b[0] == 'add' and a in b[1:]:
                        rest = [x for x in b[1:] if x != a]
                        if len(b[1:]) - len(rest) == 1:
                            n = mk_comm('add', rest)
                            # [p, p + n): the whole source when n is the caller's size / the container's size();
                            # a constant offset on the extent (n - 1, n + 1) is a recognisably different range
                            off = [x for x in (n[1:] if isinstance(n, tuple) and n[0] == 'add' else (n,))
                                   if isinstance(x, tuple) and x[0] == 'const']
                            if off or contains(n, a):
                                return ('bad-range', a, b)
                            if isinstance(a, tuple) and a[0] == 'call' and last(a[1]) == 'data':
                                want = ('call', a[1].rsplit('::', 1)[0] + '::size', a[2])
                                if n == want:
                                    return ('copy', a[2])
                                return ('unknown', v)
                            return ('range', a, n)
                    if a == b or (isinstance(a, tuple) and a[0] == 'add' and b in a[1:]):
                        return ('bad-range', a, b)
                    return ('unknown', v)
                return ('unknown', v)
        if v[0] == 'param':
            return ('copy', v)
        if v[0] == 'field':
            return ('copyof', v)
        return ('unknown', v)

    # ---- new[] / delete[] pairing of an allocation handed to a smart-pointer owner
    def check_deleter(self, r, member, args, node, findings):
        """args: the (unversioned) arguments with which the smart pointer member takes over a block (constructor or reset arguments).
        A block obtained with `new T[n]` must be released with delete[]: the owner is a shared_ptr<T[]> / unique_ptr<T[]>, or the
        block is handed over together with std::default_delete<T[]>; symmetrically a single `new T` must not get an array deleter."""
        args = [unver(a) for a in (args or ())]
        if not args or not (isinstance(args[0], tuple) and args[0] and args[0][0] == 'new'):
            return
        ct = next((f_['ct'] for f_ in r['fields'] if f_['name'] == member), '')
        if not (ct.startswith('std::shared_ptr<') or ct.startswith('std::unique_ptr<')):
            return
        inner = ct[ct.index('<') + 1:ct.rindex('>')].strip()
        if ct.startswith('std::unique_ptr<') and ',' in inner:
            findings.append(Finding('R-C11-1', 'deleter', 'the owner `%s` has a custom deleter type `%s`' % (member, ct), node, True))
            return
        is_array_new = len(args[0]) > 2 and args[0][2] is not None
        dele = args[1] if len(args) > 1 else None
        if dele is None:
            array_delete = inner.endswith('[]')
            dshow = 'the default deleter of %s (`delete%s p`)' % (ct, '[]' if array_delete else '')
        elif isinstance(dele, tuple) and dele[0] == 'construct' and len(dele) == 2 and str(dele[1]).startswith('std::default_delete<'):
            array_delete = str(dele[1]).rstrip('>').rstrip().endswith('[]')
            dshow = '`%s`' % dele[1]
        else:
            findings.append(Finding('R-C11-1', 'deleter', 'the block is handed to `%s` with the deleter `%s`, which is not modelled' % (member, show(dele)), node, True))
            return
        self.ndeleter = getattr(self, 'ndeleter', 0) + 1
        if is_array_new and not array_delete:
            findings.append(Finding('R-C11-1', 'array-new-without-array-deleter',
                                    'the owner member `%s` (%s) takes over a block allocated with `%s` and will release it with %s: an array obtained with '
                                    'new[] must be released with delete[] (hand it over together with std::default_delete<%s[]>, as the constructors do) - '
                                    'a scalar delete of an array is undefined behaviour (mismatched deallocation; for element types with destructors only '
                                    'the first element is destroyed)' % (member, ct, show(args[0]), dshow, args[0][1]), node))
        elif not is_array_new and array_delete:
            findings.append(Finding('R-C11-1', 'scalar-new-with-array-deleter',
                                    'the owner member `%s` (%s) takes over a single object allocated with `%s` and will release it with %s (delete[])'
                                    % (member, ct, show(args[0]), dshow), node))

    # ---- provenance of a pointer expression
    def classify_ptr(self, p, X, tracked, owners, basefields):
        """p: unversioned nf. returns dict(kind, obj, owner, offset) or None"""
        P, N = basefields
        own = {n: (k, inner) for n, k, inner in owners}
        cands = [(p, False)]
        if isinstance(p, tuple) and p and p[0] == 'add':
            for c in p[1:]:
                cands.append((c, True))
        for b, off in cands:
            if not isinstance(b, tuple) or not b:
                continue
            if b == ('null',):
                if not off:
                    return dict(kind='null', offset=False)
                continue
            if b[0] == 'cast':
                b = b[2]
            if b[0] == 'param' and not off:
                return dict(kind='caller', obj=b, container=False, offset=off)
            if b[0] == 'param' and off:
                # pointer parameter plus an offset: still the caller's buffer, but not "exactly its source"
                if len(b) > 1:
                    return dict(kind='caller', obj=b, container=False, offset=True)
            if b[0] == 'call' and last(b[1]) in ('data', 'get') and len(b) == 3:
                c = b[2]
                if isinstance(c, tuple) and c and c[0] == 'param':
                    return dict(kind='caller', obj=c, container=True, offset=off, fn=b[1])
                if isinstance(c, tuple) and c and c[0] == 'field' and c[1] in tracked and c[2] in own:
                    k, inner = own[c[2]]
                    return dict(kind='own' if c[1] == X else 'other', obj=c[1], owner=c[2], okind=k, offset=off, fn=b[1])
            if b[0] == 'field' and b[2] == P:
                o = b[1]
                if isinstance(o, tuple) and o and o[0] == 'deref' and isinstance(o[1], tuple) and o[1][0] == 'field' \
                        and o[1][1] in tracked and o[1][2] in own:
                    k, inner = own[o[1][2]]
                    return dict(kind='own' if o[1][1] == X else 'other', obj=o[1][1], owner=o[1][2], okind=k, offset=off)
                if isinstance(o, tuple) and o and o[0] == 'field' and o[1] in tracked and o[2] in own:
                    k, inner = own[o[2]]
                    return dict(kind='own' if o[1] == X else 'other', obj=o[1], owner=o[2], okind=k, offset=off)
                if o == X:
                    return dict(kind='self', obj=o, offset=off)      # the pointer the base already holds
                if o in tracked and o != X:
                    return dict(kind='view-of', obj=o, offset=off)
                if isinstance(o, tuple) and o and (o[0] == 'param' or (o[0] == 'deref' and isinstance(o[1], tuple) and o[1][0] == 'param')):
                    return dict(kind='view-of', obj=o, offset=off)
        return None

    # ---- one function
    def analyse(self, f, r, args=None, depth=0):
        """returns (outcomes, findings): outcomes = list of dict(states, src, did_setptr, mutated) per path"""
        key = (f['id'], tuple(args) if args is not None else None)
        if key in self.memo:
            return self.memo[key]
        self.memo[key] = ([], [])
        tu, se, m = self.tu, self.se, self.m
        owners = m.owners(r)
        base = m.base_of(r)
        findings = []
        outcomes = []
        if base is None:
            findings.append(Finding('R-C11-1', 'no-base', 'cannot identify the (pointer, size) members of the AbstractArray base', None, True))
            self.memo[key] = (outcomes, findings)
            return self.memo[key]
        basefields = (base[1], base[2])
        rep_ = m.reps.get(base[0]['type'], {})
        base_members = {x for x in (rep_.get('P'), rep_.get('N'), rep_.get('E')) if x}
        try:
            paths = se.paths(f, args=args)
        except Unsupported as e:
            findings.append(Finding('R-C11-2', 'unsupported', 'control flow not supported by the path summariser: %s' % e, None, True))
            self.memo[key] = (outcomes, findings)
            return self.memo[key]
        this = ('this',)
        tracked = {this: 'this'}
        mutable = {this}
        params = f.get('params', [])
        for i, p in enumerate(params):
            if norm_type(p['ct']).rstrip('&').strip() == r['type']:
                o = args[i] if args is not None and i < len(args) else ('param', i, p.get('name') or '')
                o = unver(o)
                tracked[o] = p.get('name') or 'arg%d' % i
                if not p['ct'].startswith('const '):
                    mutable.add(o)
        elem = m.elem(r)
        src_params = []
        for i, p in enumerate(params):
            ct = norm_type(p['ct'])
            et = elem.get('t')
            if ct in ('%s *' % et,) or ct.startswith('std::vector<%s' % et) or ct.startswith('std::array<%s' % et):
                src_params.append(('param', i, p.get('name') or ''))
        own_names = {n for n, k, i in owners}
        okind = {n: k for n, k, i in owners}
        for path in paths:
            st = {o: 'S' for o in tracked}
            dirty_by = {}
            unknown_mut = {}
            src = {}
            alias = {}
            did_setptr = {o: False for o in tracked}
            last_call = {}
            thrown_seen = set()
            mutated = {o: [] for o in tracked}
            copied_from = set()
            wrapper_assigned = {}
            direct = {}

            def owner_of(place):
                """(object, owner member) if the place is (inside) an owner member of a tracked object, or the object itself"""
                p = place
                while isinstance(p, tuple) and p:
                    if p[0] == 'field' and p[1] in tracked and p[2] in own_names:
                        return p[1], p[2]
                    if p in tracked and p != this:
                        return p, None
                    if p[0] in ('field', 'deref'):
                        p = p[1]
                    else:
                        break
                return None

            for ev in path.events:
                if ev.kind == 'init':
                    if ev.how in own_names:
                        d = self.describe(ev.value)
                        v_ = unver(ev.value)
                        if isinstance(v_, tuple) and v_ and v_[0] == 'construct':
                            self.check_deleter(r, ev.how, v_[2:], ev.node, findings)
                        src[(this, ev.how)] = d
                        if d != ('empty',):
                            if st[this] != 'A' or d[0] != 'copyof':
                                st[this] = 'D' if st[this] != 'A' else 'A'
                                if st[this] == 'D':
                                    dirty_by[this] = ev
                            mutated[this].append(('init', ev))
                            self.nmut += 1
                    continue
                if ev.kind == 'baseinit':
                    sd = ev.extra[0] if ev.extra else {}
                    crec = sd.get('rec')
                    if crec == r['q'] and ev.inlined:
                        continue        # delegating constructor: its initialisers and statements follow in this path
                    if crec == r['q']:
                        callee = tu.functions.get(sd.get('def') or sd.get('d'))
                        if callee is None or tu.cfg(callee) is None:
                            findings.append(Finding('R-C11-2', 'delegate', 'delegating constructor without analysable body', ev.node, True))
                            continue
                        outs, fnd = self.analyse(callee, r, args=tuple(ev.nf), depth=depth + 1)
                        findings.extend(x for x in fnd if x.undecided)
                        if outs and all(o['states'].get(this) == 'S' for o in outs):
                            st[this] = 'S'
                            ss = {tuple(sorted((k[1], v) for k, v in o['src'].items() if k[0] == this)) for o in outs}
                            if len(ss) == 1:
                                for k, v in outs[0]['src'].items():
                                    if k[0] == this:
                                        src[k] = v
                            did_setptr[this] = did_setptr[this] or all(o['did_setptr'].get(this) for o in outs)
                        else:
                            st[this] = 'D'
                            dirty_by[this] = ev
                    elif crec == ABS and ev.nf:
                        a0 = unver(ev.nf[0])
                        if owners:
                            st[this] = 'A'
                            alias[this] = a0
                            dirty_by[this] = ev
                        copied_from.add(a0)
                    continue
                if ev.kind == 'call':
                    last_call[id(ev.node)] = ev
                    name = ev.how or ''
                    # a new-expression (evaluated as an argument of this call) can throw: if it does, the function is left here, so an
                    # object that already exists must be consistent at this point
                    if not f.get('ctor') and owners and find_all(unver(ev.nf) if ev.nf is not None else (), lambda t: t[0] == 'new') \
                            and ev.node.get('kind') in ('CXXConstructExpr', 'CXXTemporaryObjectExpr', 'CallExpr', 'CXXMemberCallExpr', 'CXXOperatorCallExpr'):
                        inner_new = [x_ for a_ in (ev.value or ()) for x_ in find_all(unver(a_), lambda t: t[0] == 'new')]
                        if inner_new and st.get(this) in ('E', 'D') and id(ev.node) not in thrown_seen:
                            thrown_seen.add(id(ev.node))
                            dby = dirty_by.get(this)
                            findings.append(Finding('R-C11-2', 'released-before-throwing-allocation',
                                                    'the owner member was already %s (`%s`) when `%s` allocates the replacement: if that allocation throws, '
                                                    'the function is left with the view (pointer, size) still describing the old block - which this array '
                                                    'no longer keeps alive (freed if it was the only owner)'
                                                    % ('released' if st.get(this) == 'E' else 'changed', self.tu.show(dby.node) if dby is not None and dby.node else '?',
                                                       self.tu.show(ev.node)), ev.node))
                    if name == SETPTR:
                        X = ev.place
                        if X in tracked:
                            self.nsetptr += 1
                            self.on_setptr(f, r, X, ev, st, src, dirty_by, tracked, owners, basefields, findings, path)
                            did_setptr[X] = True
                        else:
                            findings.append(Finding('R-C11-1', 'setptr-object', 'setPtr is called on %s, which is neither *this nor a parameter of the class' % show(X), ev.node, True))
                        continue
                    if name == ABS + '::operator=' and ev.place in tracked:
                        X = ev.place
                        if owners and X in mutable:
                            st[X] = 'A'
                            alias[X] = unver(ev.value[0]) if ev.value else None
                            dirty_by[X] = ev
                        continue
                    if last(name) in ('memcpy', 'memmove') and ev.value and len(ev.value) == 3:
                        self.nmemcpy += 1
                        self.on_memcpy(f, r, ev, src, tracked, owners, basefields, findings, path)
                        continue
                    callee = tu.callee_fn(ev.node)
                    # `member = other.member` for a by-value wrapper member: whatever the (followed) assignment operator does inside the
                    # member, the member as a whole is a copy of the source's
                    if last(name) == 'operator=' and ev.place is not None and ev.value and len(ev.value) == 1:
                        oo_ = owner_of(ev.place)
                        if oo_ is not None and oo_[1] is not None and ev.place == ('field', oo_[0], oo_[1]) and okind.get(oo_[1]) == 'wrapper':
                            dsc_ = self.describe(ev.value[0])
                            if dsc_[0] == 'copyof':
                                wrapper_assigned[(oo_[0], oo_[1])] = dsc_
                                src[(oo_[0], oo_[1])] = dsc_
                    if ev.inlined:
                        continue        # the callee's own events follow in this path
                    if callee is not None and callee.get('rec') == r['q'] and tu.cfg(callee) is not None and ev.place in tracked \
                            and ev.node.get('kind') not in ('CXXConstructExpr', 'CXXTemporaryObjectExpr'):
                        X = ev.place
                        if X == this:
                            outs, fnd = self.analyse(callee, r, args=tuple(ev.value or ()), depth=depth + 1)
                            findings.extend(x for x in fnd if x.undecided)
                            if outs and all(o['states'].get(this) == 'S' and o['did_setptr'].get(this) for o in outs):
                                st[this] = 'S'
                                for k, v in outs[0]['src'].items():
                                    if k[0] == this:
                                        src[k] = v
                            elif outs and all(not o['mutated'].get(this) and not o['did_setptr'].get(this) for o in outs):
                                pass
                            else:
                                st[this] = 'D'
                                dirty_by[this] = ev
                        elif X in mutable and not callee.get('const'):
                            outs, fnd = self.analyse(callee, r, depth=depth + 1)
                            if outs and all(o['states'].get(this) == 'S' and o['did_setptr'].get(this) for o in outs):
                                st[X] = 'S'
                            elif outs and all(not o['mutated'].get(this) and not o['did_setptr'].get(this) for o in outs):
                                pass
                            else:
                                st[X] = 'D'
                                dirty_by[X] = ev
                    continue
                if ev.kind == 'store' and isinstance(ev.place, tuple) and len(ev.place) == 3 and ev.place[0] == 'field' and ev.place[1] in tracked \
                        and ev.place[2] in base_members:
                    # a (followed) helper of the base other than setPtr writes the viewed range directly (clearPtr(): items = Range()):
                    # once both members are written this is what setPtr(pointer, count) does, and it is judged as such
                    X = ev.place[1]
                    pend = direct.setdefault(X, {})
                    pend[ev.place[2]] = ev.value
                    if len(pend) == len(base_members):
                        pv = pend[basefields[0]]
                        if rep_.get('N') is not None:
                            nv = pend[rep_['N']]
                        elif unver(pv) == ('null',) and unver(pend[rep_['E']]) == ('null',):
                            nv = ('const', 0)
                        else:
                            nv = ('sub', pend[rep_['E']], pv)
                        direct.pop(X)
                        if X in mutable or X == this:
                            from rkstatic.x_symnf import Event as _Ev
                            sev = _Ev('call', ev.node, nf=None, place=X, how=SETPTR, value=(pv, nv), conds_n=ev.conds_n)
                            sev.ver = ev.ver
                            self.nsetptr += 1
                            self.on_setptr(f, r, X, sev, st, src, dirty_by, tracked, owners, basefields, findings, path)
                            did_setptr[X] = True
                    continue
                if ev.kind in ('mutate', 'store'):
                    if ev.place is None:
                        continue
                    oo = owner_of(ev.place)
                    if oo is None:
                        continue
                    X, M = oo
                    if X not in mutable:
                        continue
                    how = ev.how if ev.kind == 'mutate' else '='
                    self.nmut += 1
                    mutated[X].append((how, ev))
                    if M is None and how in ('arg:move', 'arg:forward'):
                        mutated[X].pop()
                        continue      # std::move(x) only casts; whoever receives the rvalue is judged where it is called
                    if M is None:
                        st[X] = 'D'
                        dirty_by[X] = ev
                        unknown_mut[X] = ev
                        continue
                    h = how[4:] if how.startswith('arg:') else how
                    whole = (ev.place == ('field', X, M))
                    # swap: the owner takes over the other operand's buffer (an empty temporary: emptied and released)
                    swapped = None
                    if whole and how == 'swap' and ev.value:
                        swapped = unver(ev.value[0])
                    elif whole and how == 'arg:swap':
                        lc = last_call.get(id(ev.node))
                        swapped = lc.place if lc is not None else None
                    if whole and st.get(X) == 'E' and not f.get('ctor') and okind.get(M) == 'vec' and how in THROWING_REFILL \
                            and id(ev.node) not in thrown_seen:
                        thrown_seen.add(id(ev.node))
                        dby = dirty_by.get(X)
                        findings.append(Finding('R-C11-2', 'emptied-before-throwing-refill',
                                                'the owner `%s` was emptied (`%s`) - its elements are destroyed - and the view has not been re-pointed when '
                                                '`%s` refills it: copying an element (or allocating) can throw, and then the function is left with '
                                                '`%s` empty while size() still reports the old count and data() / at(i) hand out destroyed elements. '
                                                'Build the new contents first (a temporary that is then moved in), or re-point the view right after emptying'
                                                % (M, self.tu.show(dby.node) if dby is not None and dby.node else '?', self.tu.show(ev.node), M), ev.node))
                    moved_out = False
                    if whole and how.startswith('arg:') and okind.get(M) in ('sp_alloc', 'up_alloc', 'sp_wrapper', 'sp_other') and ev.node is not None:
                        sd_ = tu.sd(ev.node)
                        fm_ = re.search(r'\((.*)\)', sd_.get('fty') or '')
                        ct_ = next((f_['ct'] for f_ in r['fields'] if f_['name'] == M), None)
                        # handed as an rvalue to the move constructor / move assignment of its own smart-pointer type: empty afterwards
                        if fm_ and fm_.group(1).strip().endswith('&&') and ',' not in fm_.group(1) and (h == 'operator=' or sd_.get('k') == 'ctor') \
                                and ct_ is not None and norm_type(sd_.get('cty') or sd_.get('ct') or ct_) == norm_type(ct_):
                            moved_out = True
                    if moved_out:
                        st[X] = 'E'
                        src[(X, M)] = ('empty',)
                    elif swapped is not None and self.describe(swapped) == ('empty',):
                        st[X] = 'E'
                        src[(X, M)] = ('empty',)
                    elif swapped is not None:
                        st[X] = 'D'
                        src[(X, M)] = self.describe(swapped)
                    elif whole and how in MUT_EMPTY or (whole and how == 'reset' and not (ev.value or ())):
                        st[X] = 'E'
                        src[(X, M)] = ('empty',)
                    elif whole and how == 'shrink_to_fit' and st[X] == 'E':
                        pass
                    else:
                        if st[X] == 'A' and whole and how == 'operator=' and ev.value and self.describe(ev.value[0])[0] == 'copyof':
                            pass     # member-wise assignment following the base assignment
                        else:
                            st[X] = 'D'
                        if whole and how in ('operator=', '=') and (ev.value is not None):
                            v = ev.value[0] if ev.kind == 'mutate' and ev.value else ev.value
                            src[(X, M)] = self.describe(v)
                            pend_ = src.get(('pending', X))
                            if pend_ is not None and all(src.get((X, M_)) == ('copyof', ('field', pend_[0], M_)) for M_, k_, i_ in owners):
                                del src[('pending', X)]      # view and owner members now both come from the same object
                                st[X] = 'S'
                                dirty_by[X] = ev
                                continue
                            v_ = unver(v)
                            if isinstance(v_, tuple) and v_ and v_[0] == 'construct':
                                self.check_deleter(r, M, v_[2:], ev.node, findings)
                        elif whole and how == 'reset' and ev.value:
                            v0 = unver(ev.value[0])
                            self.check_deleter(r, M, ev.value, ev.node, findings)
                            src[(X, M)] = ('new', v0[2], v0[1]) if isinstance(v0, tuple) and v0[0] == 'new' else ('unknown', v0)
                        elif whole and how == 'assign' and ev.value and len(ev.value) == 2:
                            src[(X, M)] = self.describe(('construct', 'std::vector<>') + tuple(ev.value))
                        elif whole and how == 'resize':
                            src[(X, M)] = ('sized', unver(ev.value[0]) if ev.value else None)
                        elif not whole and (X, M) in wrapper_assigned and how == 'operator=':
                            src[(X, M)] = wrapper_assigned[(X, M)]      # a step of the member's own copy assignment
                        else:
                            src[(X, M)] = ('unknown', how)
                        if (h not in MUT_KNOWN and not how.startswith('arg:')) or \
                                (how.startswith('arg:') and h not in ('swap', 'move', 'forward', 'operator=', 'assign') and
                                 not (ev.node.get('kind') in ('CXXConstructExpr', 'CXXTemporaryObjectExpr'))):
                            unknown_mut[X] = ev     # handed by non-const reference to a function whose effect on the buffer is not known
                    dirty_by[X] = ev
                    continue
            for k_ in [k_ for k_ in src if k_[0] == 'pending']:
                findings.append(src.pop(k_)[1])
            if path.term[0] == 'throw':
                continue
            outcomes.append(dict(states=dict(st), src=dict(src), did_setptr=dict(did_setptr), mutated=mutated,
                                 dirty_by=dict(dirty_by), unknown=dict(unknown_mut), alias=dict(alias), path=path,
                                 copied_from=copied_from))
        # owning array built from a source: whole source range copied (R-C11-6)
        if owners and src_params and (f.get('ctor') or f.get('assign') or True) and outcomes:
            self.check_source_copied(f, r, outcomes, src_params, owners, findings, paths)
        self.memo[key] = (outcomes, findings)
        return self.memo[key]

    def check_source_copied(self, f, r, outcomes, src_params, owners, findings, paths):
        okind = {n: k for n, k, i in owners}
        this = ('this',)
        for name, kind, inner in owners:
            if kind == 'vec':
                for o in outcomes:
                    d = o['src'].get((this, name))
                    if d is None:
                        continue
                    if d[0] == 'bad-range':
                        findings.append(Finding('R-C11-6', 'owner-range', 'owner `%s` is built from the range [%s, %s), which is not the whole source'
                                                % (name, show(d[1]), show(d[2])), o['dirty_by'].get(this).node if o['dirty_by'].get(this) else None))
                    elif d[0] == 'unknown' and any(contains(d[1], sp) for sp in src_params):
                        findings.append(Finding('R-C11-6', 'owner-range', 'owner `%s` is built from the source in a form that is not recognised: %s'
                                                % (name, show(d[1]) if isinstance(d[1], tuple) else d[1]), None, True))
            if kind in ('sp_alloc', 'up_alloc'):
                # some path must memcpy from the source parameter into the allocation
                ptr_params = [sp for sp in src_params]
                allocs = [o for o in outcomes if o['src'].get((this, name), ('x',))[0] == 'new']
                if not allocs:
                    continue
                copied = False
                other_copy = None
                for p in paths:
                    for ev in p.events:
                        if ev.kind == 'call' and last(ev.how or '') in ('memcpy', 'memmove') and ev.value and len(ev.value) == 3:
                            if any(contains(unver(ev.value[1]), sp) for sp in ptr_params):
                                copied = True
                        elif ev.kind == 'call' and ev.value and ev.how != SETPTR and ev.node.get('kind') == 'CallExpr':
                            vals = [unver(v) for v in ev.value]
                            if any(contains(v, sp) for v in vals for sp in ptr_params) and \
                                    any(contains(v, ('field', this, name)) for v in vals):
                                other_copy = ev
                        if ev.kind == 'baseinit' and ev.extra and ev.extra[0].get('rec') == r['q']:
                            # delegation to a constructor that receives the source
                            if any(contains(unver(a), sp) for a in ev.nf for sp in ptr_params):
                                callee = self.tu.functions.get(ev.extra[0].get('def') or ev.extra[0].get('d'))
                                if callee is not None and any(norm_type(pp['ct']).endswith('*') for pp in callee.get('params', [])):
                                    copied = True
                if not copied and other_copy is not None:
                    findings.append(Finding('R-C11-6', 'source-not-copied', 'the source is copied by `%s`, a form this rule does not model (memcpy is)'
                                            % self.tu.show(other_copy.node), other_copy.node, True))
                elif not copied:
                    findings.append(Finding('R-C11-6', 'source-not-copied', 'the function allocates new storage from a source buffer but never copies '
                                            'the source into it (no memcpy from the source on any path)', None))

    # ---- setPtr
    def on_setptr(self, f, r, X, ev, st, src, dirty_by, tracked, owners, basefields, findings, path):
        se = self.se
        p, n = (ev.value + (None, None))[:2] if ev.value else (None, None)
        if p is None or n is None:
            findings.append(Finding('R-C11-1', 'setptr-args', 'setPtr call with unexpected arguments', ev.node, True))
            return
        # staleness: every owner place read inside the arguments must carry the version current at the call
        stale = []
        for arg in (p, n):
            for place, vers in versions_in(arg).items():
                cur = se.version_in(ev.ver or {}, place)
                if any(v != cur for v in vers):
                    stale.append(place)
        pu, nu = unver(p), unver(n)
        c = self.classify_ptr(pu, X, tracked, owners, basefields)
        cname = short(r['q'])
        P, N = basefields
        if c is None:
            # recognised-wrong form: (T *)((byte *)base + k) with k a bare parameter and T wider than a byte - the element offset of
            # the interface is applied in bytes.  (k * sizeof(T), or T itself a byte type, is the same address: not this form.)
            BYTES = ('unsigned char *', 'char *', 'signed char *', 'uint8_t *', 'std::uint8_t *', 'int8_t *', 'std::byte *')
            nb = lambda t: (t or '').replace('const ', '').strip()
            if isinstance(pu, tuple) and len(pu) == 3 and pu[0] == 'cast' and nb(pu[1]) not in BYTES and nb(pu[1]).endswith('*') \
                    and 'void' not in nb(pu[1]) and isinstance(pu[2], tuple) and pu[2] and pu[2][0] == 'add' and len(pu[2]) == 3:
                ops = pu[2][1:]
                bs = [o for o in ops if isinstance(o, tuple) and len(o) == 3 and o[0] == 'cast' and nb(o[1]) in BYTES]
                ks = [o for o in ops if isinstance(o, tuple) and o and o[0] == 'param']
                if len(bs) == 1 and len(ks) == 1 and \
                        self.classify_ptr(('add', bs[0][2], ks[0]), X, tracked, owners, basefields) is not None:
                    findings.append(Finding('R-C11-1', 'byte-offset', 'setPtr receives `%s`: the element offset `%s` is added to the '
                                            'storage pointer after it was cast to a byte pointer, so the view starts %s bytes - not '
                                            'elements - into its source; for an element type wider than one byte begin() is at the '
                                            'wrong (and possibly misaligned) address and the view does not alias its source exactly'
                                            % (show(pu), show(ks[0]), show(ks[0])), ev.node))
                    st[X] = 'S'
                    return
            findings.append(Finding('R-C11-1', 'provenance', 'cannot classify the pointer argument `%s` of setPtr' % show(pu), ev.node, True))
            st[X] = 'S'
            return
        self.prov.setdefault(r['q'], set()).add(c['kind'] if c['kind'] != 'own' else 'own:' + c['okind'])
        if c['kind'] == 'own' and c.get('offset'):
            self.prov[r['q']].add('own:%s@offset' % c['okind'])
        if stale:
            findings.append(Finding('R-C11-2', 'stale', 'setPtr(%s, %s) uses a value read from `%s` before the statement that changed it '
                                    '(the pointer may refer to released storage)' % (show(pu), show(nu), show(stale[0])), ev.node))
            return
        k = c['kind']
        if k == 'null':
            if nu != ('const', 0):
                if nu[0] == 'const':
                    findings.append(Finding('R-C11-1', 'null-nonzero', 'setPtr(nullptr, %s): a null view with a non-zero size' % show(nu), ev.node))
                else:
                    findings.append(Finding('R-C11-1', 'null-size', 'setPtr(nullptr, %s): size not recognised as zero' % show(nu), ev.node, True))
                return
            if st[X] == 'D' and owners:
                d = dirty_by.get(X)
                kinds = {v[0] for (o, mm), v in src.items() if o == X}
                known_contents = bool(kinds & {'range', 'copy', 'copyof', 'sized', 'new', 'bad-range'})
                findings.append(Finding('R-C11-2', 'emptied-view', ('the owner was given new contents (%s) but the view is reset to (nullptr, 0) '
                                        'instead of being re-derived from it' if known_contents else
                                        'the owner was changed by `%s`, whose effect on its contents is not modelled, and the view is then reset to '
                                        '(nullptr, 0)') % (self.tu.show(d.node) if d is not None and d.node else '?'), ev.node, not known_contents))
                return
            st[X] = 'S'
            return
        if k == 'caller':
            if owners:
                findings.append(Finding('R-C11-1', 'aliases-caller-buffer', '%s owns its storage (member `%s`) but setPtr(%s, ...) makes the view alias '
                                        'the caller\'s buffer' % (cname, owners[0][0], show(pu)), ev.node))
                return
            if c.get('offset'):
                findings.append(Finding('R-C11-1', 'view-offset', 'non-owning view does not alias its source exactly: pointer is `%s`' % show(pu), ev.node))
                return
            if c.get('container'):
                want = ('call', c['fn'].rsplit('::', 1)[0] + '::size', c['obj'])
                if nu != want:
                    if contains(nu, want) or nu[0] == 'const':
                        findings.append(Finding('R-C11-6', 'view-size', 'view of `%s` has size `%s` instead of `%s`' % (show(c['obj']), show(nu), show(want)), ev.node))
                    else:
                        findings.append(Finding('R-C11-6', 'view-size', 'size argument `%s` is not recognised as the size of `%s`' % (show(nu), show(c['obj'])), ev.node, True))
                    return
            else:
                if not (isinstance(nu, tuple) and nu and nu[0] == 'param'):
                    findings.append(Finding('R-C11-6', 'view-size', 'size argument `%s` passed with caller pointer `%s` is not recognised as the caller\'s '
                                            'size parameter' % (show(nu), show(pu)), ev.node, True))
                    return
            st[X] = 'S'
            return
        if k == 'self':
            # setPtr(<the pointer already stored>, n): only the size changes
            vecs = [(M_, k_) for M_, k_, i_ in owners if k_ == 'vec']
            if c.get('offset') or not owners:
                findings.append(Finding('R-C11-1', 'provenance', 'setPtr re-uses the stored pointer `%s` with an offset / without an owner' % show(pu), ev.node, True))
                return
            if st[X] in ('D', 'E', 'A'):
                # the owner changed since the pointer was stored: keeping it is right only if the path has established that it still is
                # the owner's data()
                same = False
                for M_, k_ in vecs:
                    dd = ('call', 'std::vector::data', ('field', X, M_))
                    if path.cond_of(tuple(['eq'] + sorted([dd, pu], key=repr))) is True:
                        same = True
                if not same:
                    d_ = dirty_by.get(X)
                    findings.append(Finding('R-C11-2', 'pointer-not-rederived',
                                            'after `%s` changed the owner the view keeps the pointer the base already held (`setPtr(%s, %s)`) instead of '
                                            're-reading it from the owner, and the path does not establish that this stored pointer equals the owner\'s '
                                            'data() (path conditions: %s). The stored pointer is nullptr whenever the array was empty (setPtr normalises it), '
                                            'so growing again inside the capacity yields a positive size with a null data()'
                                            % (self.tu.show(d_.node) if d_ is not None and d_.node else '?', show(pu), show(nu),
                                               ', '.join('%s is %s' % (show(c_), p_) for c_, p_, _n in path.conds) or 'none'), ev.node))
                    return
            for M_, k_ in vecs:
                want = ('call', 'std::vector::size', ('field', X, M_))
                if nu != want:
                    findings.append(Finding('R-C11-6', 'view-not-whole-owner', 'the size is set to `%s`, not to %s.size()' % (show(nu), M_), ev.node,
                                            not (nu[0] == 'const' or contains(nu, want))))
                    return
            st[X] = 'S'
            return
        if k == 'view-of':
            # copy operation of a class whose owner members share the storage: after the owners were copied from `other`, other's own
            # (pointer, size) designate the same, co-owned elements
            O_ = c.get('obj')
            if owners and O_ in tracked and not c.get('offset') and self.m.shares_storage(r) \
                    and all(src.get((X, M_)) == ('copyof', ('field', O_, M_)) for M_, k_, i_ in owners):
                if nu == self.se._subst(N, {('this',): O_}):
                    st[X] = 'S'
                else:
                    findings.append(Finding('R-C11-6', 'view-size', 'the copy takes the pointer of `%s` but the size `%s`' % (show(O_), show(nu)), ev.node,
                                            not (nu[0] == 'const' or contains(nu, self.se._subst(N, {('this',): O_})))))
                return
            if owners and O_ in tracked and not c.get('offset') and self.m.shares_storage(r) and nu == self.se._subst(N, {('this',): O_}) \
                    and all(k_ in ('sp_alloc', 'sp_wrapper', 'wrapper') for M_, k_, i_ in owners):
                # the other order of the same copy: the view is taken from `other` first and the (non-throwing) share of its owner
                # members follows; judged when the owners are assigned - or at the end of the path if they never are
                src[('pending', X)] = (O_, Finding('R-C11-1', 'aliases-other-object', '%s owns its storage but setPtr(%s, ...) takes the view of another '
                                                   'array and the owner member(s) are not taken from it afterwards' % (cname, show(pu)), ev.node))
                st[X] = 'S'
                return
            if owners:
                findings.append(Finding('R-C11-1', 'aliases-other-object', '%s owns its storage but setPtr(%s, ...) takes the view of another array' % (cname, show(pu)), ev.node))
                return
            st[X] = 'S'
            return
        if k == 'other':
            findings.append(Finding('R-C11-1', 'aliases-other-object', 'setPtr(%s, ...) on `%s` points into the owner member of another object (`%s`)'
                                    % (show(pu), tracked.get(X), tracked.get(c['obj'])), ev.node))
            return
        # own owner
        M, ok = c['owner'], c['okind']
        d = src.get((X, M))
        if ok == 'vec':
            want = ('call', c['fn'].rsplit('::', 1)[0] + '::size', ('field', X, M)) if c.get('fn') else None
            # the extent the owner was given on this path (range / copy / resize), which may be named instead of size()
            ext = None
            if d is not None and d[0] == 'range':
                ext = d[2]
            elif d is not None and d[0] == 'sized':
                ext = d[1]
            elif d is not None and d[0] == 'copy' and isinstance(d[1], tuple):
                ext = ('call', 'std::vector::size', d[1])
            same_ext = ext is not None and (nu == ext or (d[0] == 'copy' and isinstance(nu, tuple) and nu[0] == 'call' and last(nu[1]) == 'size' and nu[2] == d[1]))
            if not c.get('offset') and nu != want and not same_ext and want is not None \
                    and path.cond_of(tuple(['eq'] + sorted([nu, want], key=repr))) is True:
                same_ext = True       # the path has just established size argument == owner.size()
            if c.get('offset') or (nu != want and not same_ext):
                bad = c.get('offset') or (want is not None and contains(nu, want)) or nu[0] == 'const'
                why = 'view (%s, %s) is not (data(), size()) of the owner `%s`' % (show(pu), show(nu), M)
                if not bad and want is not None and find_all(nu, lambda t: t[0] == 'param') and not find_all(nu, lambda t: t[0] in ('call', 'opaque', 'var', 'field')):
                    # a caller-chosen size against the owner's own length: equal only if the owner was resized to it on this path,
                    # or a path condition says so
                    eqc = path.cond_of(tuple(['eq'] + sorted([nu, want], key=repr)))
                    if eqc is not True:
                        bad = True
                        why = ('the view is given `%s` elements, a caller-chosen value, while the owner `%s` keeps its own length (%s) on this path: size() '
                               'and %s.size() can differ. The members that re-derive the view from %s (copy / move / assignment) then report the '
                               'owner\'s length again - elements that were cut off reappear'
                               % (show(nu), M, 'not resized to it here' if d is None else 'it was given `%s`' % show(ext) if ext is not None else 'changed in another way',
                                  M, M))
                findings.append(Finding('R-C11-6', 'view-not-whole-owner', why, ev.node, not bad))
                return
        elif ok in ('sp_alloc', 'up_alloc'):
            if c.get('offset'):
                findings.append(Finding('R-C11-6', 'view-not-whole-owner', 'view pointer `%s` is offset into the allocation' % show(pu), ev.node, True))
                return
            if d is not None and d[0] == 'new':
                cnt = d[1]
                if nu != cnt:
                    leaves_ok = self.same_leaves(nu, cnt)
                    findings.append(Finding('R-C11-6', 'size-not-allocation-count', 'storage is allocated with new %s[%s] but the view size is `%s`'
                                            % (d[2], show(cnt), show(nu)), ev.node, not leaves_ok))
                    return
            elif d is not None and d[0] == 'copyof':
                o = d[1][1]
                if nu != self.se._subst(N, {('this',): o}):
                    findings.append(Finding('R-C11-6', 'size-not-allocation-count', 'allocation shared with `%s` but the view size is `%s`' % (show(o), show(nu)), ev.node, True))
                    return
            elif d is None and nu == self.se._subst(N, {('this',): X}):
                pass    # allocation untouched in this function and the size is the one already recorded
            else:
                findings.append(Finding('R-C11-6', 'size-not-allocation-count', 'cannot relate the view size `%s` to the allocation held by `%s` '
                                        '(no allocation seen before this call)' % (show(nu), M), ev.node, True))
                return
        elif ok in ('sp_wrapper', 'wrapper'):
            # a window into another wrapper: the caller's size, or that size clipped to the elements that follow the offset
            holder = ('field', X, M) if ok == 'wrapper' else ('deref', ('field', X, M))
            SZ = self.se._subst(N, {('this',): holder})
            offs = [t for t in (pu[1:] if isinstance(pu, tuple) and pu[0] == 'add' else ()) if not (isinstance(t, tuple) and t[0] == 'field' and t[2] == P)]
            off = mk_comm('add', offs) if offs else ('const', 0)
            # copy operation: the member was copied from `other` (same, shared block); the copy must be the same window as other's view
            if d is not None and d[0] == 'copyof' and isinstance(d[1], tuple) and d[1][0] == 'field' and d[1][1] in tracked and d[1][1] != X:
                O_ = d[1][1]
                NO = self.se._subst(N, {('this',): O_})
                holderO = ('field', O_, M) if ok == 'wrapper' else ('deref', ('field', O_, M))
                want_off = ('sub', ('field', O_, P), ('field', holderO, P))
                if nu == NO and offs and off == want_off:
                    st[X] = 'S'
                    return
                if nu == NO and not offs:
                    for g_ in self.tu.functions.values():      # where do this class's views start: its other constructors
                        if g_.get('recid') == r['id'] and not g_['dep'] and self.tu.cfg(g_) is not None and g_.get('ctor') == 'other':
                            self.analyse(g_, r)
                    if 'own:%s@offset' % ok in self.prov.get(r['q'], ()):
                        findings.append(Finding('R-C11-6', 'copy-drops-offset',
                                                'the copy re-points its view at the start of the shared block (`setPtr(%s, %s)`) and takes only the size from '
                                                '`%s`: a %s can view a window that starts at an offset into `%s` (its constructor does setPtr(%s.begin() + '
                                                'offset, size)), and the offset is not carried over - the copy of a view with offset k has the right size() '
                                                'but its elements are [0, size) of the block instead of [k, k + size)'
                                                % (show(pu), show(nu), show(O_), cname, M, M), ev.node))
                    else:
                        findings.append(Finding('R-C11-6', 'view-size', 'the copy views `%s` elements from the start of `%s`; whether that is the window of `%s` '
                                                'is not decided' % (show(nu), M, show(O_)), ev.node, True))
                    return
            zero = {a_ for a_ in (SZ, off) if path.cond_of(mk_eq(('const', 0), a_)) is True}

            def lin(x):
                """x as a linear form {atom: coefficient, 1: constant} over add / sub / constants, or None"""
                if x in zero:
                    return {}
                if isinstance(x, tuple) and x and x[0] == 'const' and isinstance(x[1], int):
                    return {1: x[1]} if x[1] else {}
                if isinstance(x, tuple) and x and x[0] in ('add', 'sub'):
                    out = {}
                    for i_, y in enumerate(x[1:]):
                        ly = lin(y)
                        if ly is None:
                            return None
                        sg = -1 if (x[0] == 'sub' and i_ > 0) else 1
                        for k_, v_ in ly.items():
                            out[k_] = out.get(k_, 0) + sg * v_
                    return {k_: v_ for k_, v_ in out.items() if v_}
                if isinstance(x, tuple) and x and x[0] == 'cast':
                    return lin(x[2])
                if isinstance(x, tuple) and x and x[0] in ('param', 'field'):
                    return {x: 1}
                return None

            room = lin(('sub', SZ, off))
            bound = None
            if isinstance(nu, tuple) and nu[0] == 'call' and last(str(nu[1])) == 'min' and len(nu) == 5:
                a_, b_ = nu[3], nu[4]
                if isinstance(b_, tuple) and b_[0] == 'param' and not (isinstance(a_, tuple) and a_[0] == 'param'):
                    a_, b_ = b_, a_
                if isinstance(a_, tuple) and a_[0] == 'param':
                    bound = b_
            elif isinstance(nu, tuple) and nu[0] in ('add', 'sub', 'field') and contains(nu, SZ):
                bound = nu
            if isinstance(nu, tuple) and (nu[0] == 'param' or nu == ('const', 0)):
                pass
            elif bound is not None and room is not None and lin(bound) is not None:
                lb = lin(bound)
                diff = {k_: lb.get(k_, 0) - room.get(k_, 0) for k_ in set(lb) | set(room)}
                diff = {k_: v_ for k_, v_ in diff.items() if v_}
                if not diff:
                    pass
                elif set(diff) == {1}:
                    k_ = diff[1]
                    findings.append(Finding('R-C11-6', 'view-clamped-short' if k_ < 0 else 'view-exceeds-owner',
                                            'the view into `%s` starts at offset `%s` and its size is %s `%s`, but `%s` elements follow that offset: '
                                            '%s' % (M, show(off), 'limited to' if bound is not nu else 'set to', show(bound), show(('sub', SZ, off)),
                                                    ('a request that reaches the last element of the underlying array is cut by %d (the last valid index was '
                                                     'used where the element count is needed)' % -k_) if k_ < 0 else
                                                    ('the view can extend %d element(s) past the end of the underlying array' % k_)), ev.node))
                    return
                else:
                    findings.append(Finding('R-C11-6', 'view-size', 'the size `%s` of the view into `%s` is not recognised as the caller\'s size or its clip to '
                                            'the `%s` elements that follow the offset' % (show(nu), M, show(('sub', SZ, off))), ev.node, True))
                    return
            else:
                findings.append(Finding('R-C11-6', 'view-size', 'the size `%s` of the view into `%s` is not recognised as the caller\'s size or its clip to '
                                        'the `%s` elements that follow the offset' % (show(nu), M, show(('sub', SZ, off))), ev.node, True))
                return
        else:
            findings.append(Finding('R-C11-1', 'provenance', 'view derives from member `%s` whose ownership kind is not recognised' % M, ev.node, True))
            return
        st[X] = 'S'

    @staticmethod
    def same_leaves(a, b):
        """a is arithmetic over the same leaves as b (a recognisably different extent, e.g. n+1, n*2)"""
        def leaves(x, out):
            if isinstance(x, tuple) and x and x[0] in ('add', 'mul', 'sub', 'neg', 'cast', 'binop'):
                for y in x[1:]:
                    leaves(y, out)
            elif isinstance(x, tuple) and x and x[0] in ('const', 'sizeof'):
                pass
            else:
                out.add(x if isinstance(x, tuple) else ('atom', x))
            return out
        la, lb = leaves(a, set()), leaves(b, set())
        return la <= lb and a != b

    # ---- memcpy into the allocation
    def on_memcpy(self, f, r, ev, src, tracked, owners, basefields, findings, path):
        dst, s, ln = [unver(x) for x in ev.value]
        this = ('this',)
        c = self.classify_ptr(dst, this, tracked, owners, basefields)
        # allocate - fill - publish: the destination is a block just allocated into a local smart pointer (not yet the array's)
        if c is None and isinstance(dst, tuple) and dst[0] == 'call' and last(dst[1]) == 'get' and len(dst) == 3 \
                and isinstance(dst[2], tuple) and dst[2][0] == 'construct' and len(dst[2]) >= 3 \
                and isinstance(dst[2][2], tuple) and dst[2][2][0] == 'new' and dst[2][2][2] is not None:
            cnt = dst[2][2][2]
            elem = self.m.elem(r)
            sz = [x for x in (ln[1:] if isinstance(ln, tuple) and ln[0] == 'mul' else ()) if isinstance(x, tuple) and x[0] == 'sizeof']
            ok_len = (isinstance(ln, tuple) and ln[0] == 'mul' and len(sz) == 1 and mk_comm('mul', [x for x in ln[1:] if x is not sz[0]]) == cnt
                      and sz[0][2] == elem.get('size')) or (elem.get('size') == 1 and ln == cnt)
            if not ok_len:
                findings.append(Finding('R-C11-6', 'memcpy-length', 'the fresh block holds %s elements of %d bytes but memcpy copies `%s` bytes'
                                        % (show(cnt), elem.get('size', 0), show(ln)), ev.node, not (self.same_leaves(ln, cnt) or ln == cnt)))
                return
            guards = path.conds[:ev.conds_n]
            if not any(unver(cn) == tuple(['eq'] + sorted([('null',), s], key=repr)) and pol is False for cn, pol, _ in guards):
                findings.append(Finding('R-C11-6', 'memcpy-unguarded', 'memcpy from `%s` is not guarded by a non-null test of the source '
                                        '(a null / empty source reaches memcpy)' % show(s), ev.node))
                return
            findings.append(Finding('R-C11-6', 'ok-memcpy', 'memcpy(%s, %s, %s) fills a block of %s elements allocated just before, source tested non-null'
                                    % (show(dst), show(s), show(ln), show(cnt)), ev.node))
            return
        if c is None or c['kind'] != 'own' or c.get('okind') not in ('sp_alloc', 'up_alloc', 'vec'):
            findings.append(Finding('R-C11-6', 'memcpy-dst', 'memcpy destination `%s` is not the array\'s own allocation' % show(dst), ev.node, True))
            return
        for place, vers in versions_in(ev.value[0]).items():
            cur = self.se.version_in(ev.ver or {}, place)
            if any(v != cur for v in vers):
                findings.append(Finding('R-C11-2', 'stale', 'memcpy writes through a pointer read from `%s` before it was replaced' % show(place), ev.node))
                return
        d = src.get((this, c['owner']))
        elem = self.m.elem(r)
        if (d is None or d[0] != 'new') and c.get('okind') == 'sp_alloc':
            # the block was not allocated on this path: it is the one copies of this array (and views onto it) share
            findings.append(Finding('R-C11-6', 'write-into-shared-allocation', 'memcpy writes into the allocation held by `%s` on a path where no new '
                                    'block was allocated: copies of this array and views onto it share that block, so assigning to this '
                                    'array changes their contents' % c['owner'], ev.node))
            return
        if d is None or d[0] != 'new':
            findings.append(Finding('R-C11-6', 'memcpy-length', 'cannot find the allocation size the memcpy must agree with', ev.node, True))
            return
        cnt = d[1]
        sz = [x for x in (ln[1:] if isinstance(ln, tuple) and ln[0] == 'mul' else ()) if isinstance(x, tuple) and x[0] == 'sizeof']
        ok_len = False
        if isinstance(ln, tuple) and ln[0] == 'mul' and len(sz) == 1:
            rest = mk_comm('mul', [x for x in ln[1:] if x is not sz[0]])
            if rest == cnt and sz[0][2] == elem.get('size'):
                ok_len = True
        elif elem.get('size') == 1 and ln == cnt:
            ok_len = True
        if not ok_len:
            rec = self.same_leaves(ln, cnt) or ln == cnt
            findings.append(Finding('R-C11-6', 'memcpy-length', 'allocation holds %s elements of %d bytes but memcpy copies `%s` bytes'
                                    % (show(cnt), elem.get('size', 0), show(ln)), ev.node, not rec))
            return
        # guard: source pointer tested non-null before the copy
        guards = path.conds[:ev.conds_n]
        null_ok = any(unver(cn) == tuple(['eq'] + sorted([('null',), s], key=repr)) and pol is False for cn, pol, _ in guards)
        if not null_ok:
            findings.append(Finding('R-C11-6', 'memcpy-unguarded', 'memcpy from `%s` is not guarded by a non-null test of the source '
                                    '(a null / empty source reaches memcpy)' % show(s), ev.node))
            return
        findings.append(Finding('R-C11-6', 'ok-memcpy', 'memcpy(%s, %s, %s) agrees with new %s[%s], source tested non-null'
                                % (show(dst), show(s), show(ln), d[2], show(cnt)), ev.node))


def check_wrappers(ctx, tu, tag=''):
    R1, R2, R3, R6 = 'R-C11-1', 'R-C11-2', 'R-C11-3', 'R-C11-6'
    ctx.describe(R1, 'provenance of the view pointer: an owning wrapper exposes only its own storage; a view through a shared_ptr '
                     'to another wrapper requires that wrapper never to replace its allocation')
    ctx.describe(R2, 're-derive after mutation: every statement that can reallocate / replace / resize the owner member is followed, on '
                     'all paths to the return, by setPtr with arguments read from the owner after that statement')
    ctx.describe(R3, 'a wrapper whose view pointer aliases storage uniquely owned by a by-value member has no compiler-generated '
                     'copy / move operation')
    ctx.describe(R6, 'extent agreement: view size = owner size (vector size() / new T[n] count), memcpy length = n*sizeof(T) guarded by a '
                     'non-null source test, owner built from the whole source range, copy only into a block allocated on the same path')
    m = Model(tu)
    if not m.bases or not m.wrappers:
        ctx.broken('R-C11-1: no instantiated subclass of %s found in %s' % (ABS, tu.unit))
        return
    wa = WrapperAnalysis(ctx, tu, m)
    nfun = 0
    n2 = 0
    n6 = 0
    by_rec = {}
    for f in tu.functions.values():
        if f['dep'] or tu.cfg(f) is None or not f.get('rec'):
            continue
        r = tu.records.get(f.get('recid'))
        if r is None or r['type'] not in m.wrappers:
            continue
        by_rec.setdefault(r['type'], []).append(f)
    # what a copy of a wrapper with *user-provided* copy operations designates: the source's block again (the owner member is copied:
    # shared_ptr semantics), or a block of its own (deep copy)?  True / False / None (not decided), per record type
    m.copy_sharing = {}
    by_tmpl = {}
    for rtype, fs in sorted(by_rec.items()):
        r = m.wrappers[rtype]
        if not any(r.get(k, {}).get('user') for k in ('copy_ctor', 'copy_assign')):
            continue
        shareable = [n_ for n_, k_, i_ in m.owners(r) if k_ in ('sp_alloc', 'sp_wrapper', 'wrapper')]
        if not shareable:
            continue
        verdicts = []
        for f in fs:
            if not (f.get('ctor') == 'copy' or f.get('assign') == 'copy') or f.get('implicit') or f.get('defaulted'):
                continue
            outs, _fnd = wa.analyse(f, r)
            p0_ = ('param', 0, (f.get('params') or [{}])[0].get('name') or '')
            for o in outs:
                for M_ in shareable:
                    d_ = o['src'].get((('this',), M_))
                    if d_ is None:
                        verdicts.append(None)
                    elif d_[0] == 'copyof' and unver(d_[1]) == ('field', p0_, M_):
                        verdicts.append(True)
                    elif d_[0] in ('new', 'copy', 'range', 'sized', 'empty'):
                        verdicts.append(False)
                    else:
                        verdicts.append(None)
        if verdicts:
            v_ = False if any(x is False for x in verdicts) else (None if any(x is None for x in verdicts) else True)
            m.copy_sharing[rtype] = v_
            by_tmpl.setdefault(r['q'], set()).add(v_)
    for rtype, r in m.wrappers.items():      # an instantiation whose copy operations are not odr-used follows its siblings
        if rtype not in m.copy_sharing and any(r.get(k, {}).get('user') for k in ('copy_ctor', 'copy_assign')) and len(by_tmpl.get(r['q'], ())) == 1:
            m.copy_sharing[rtype] = next(iter(by_tmpl[r['q']]))
    for rtype, fs in sorted(by_rec.items()):
        r = m.wrappers[rtype]
        owners = m.owners(r)
        for f in sorted(fs, key=lambda f: (f['l'], f['fty'])):
            if f.get('dtor'):
                continue
            if is_followed_helper(tu, f, fs, follow_c11):
                continue      # a private helper is judged inside its callers' paths (with their conditions and allocations)
            generated = bool(f.get('implicit') or (f.get('defaulted') and (f.get('ctor') in ('copy', 'move') or f.get('assign'))))
            outs, findings = wa.analyse(f, r)
            nfun += 1
            inst = inst_name(f) + tag
            pname = pattern_name(tu, f)
            file = tu.fn_file(f) if not f.get('implicit') else rec_file(tu, r)
            loc = tu.fn_loc(f)
            bad = set()
            for fd in findings:
                if fd.kind.startswith('ok-'):
                    ctx.ok(fd.rule, inst, fd.why, tu.loc(fd.node) if fd.node else loc)
                    n6 += 1
                    continue
                if generated:
                    continue   # compiler-generated members are judged by R-C11-3 on the record
                l = tu.loc(fd.node) if fd.node else loc
                if fd.undecided:
                    ctx.undecided(fd.rule, inst, fd.why, l)
                else:
                    ctx.violation(fd.rule, inst, fd.why, l, key='%s|%s|%s|%s' % (fd.rule, file, pname, fd.kind),
                                  path=['in %s (%s)' % (f['q'], loc), 'at %s: %s' % (l, tu.show(fd.node) if fd.node else '')])
                    bad.add(fd.rule)
            # exit states
            exit_bad = False
            this = ('this',)
            # an operation that adopts a source (pointer / container parameter) does so on every returning path: a path that leaves
            # the array untouched because of a test of the source alone keeps the old size and contents
            # a non-owning view assigned from a container aliases it exactly afterwards - (data(), size()) - on every returning path.  A path
            # that returns without setPtr is right only if it has established both: the same pointer alone does not make the size right
            # (a vector changes its length in place; a view can have been reset() to a prefix of the same block)
            if not generated and not owners and f.get('access') in (None, 'public', 'none') and not f.get('ctor') and outs:
                elem_t = m.elem(r).get('t')
                csrcs = [('param', i_, p_.get('name') or '') for i_, p_ in enumerate(f.get('params', []))
                         if norm_type(p_['ct']).startswith('std::vector<%s' % elem_t) or norm_type(p_['ct']).startswith('std::array<%s' % elem_t)]
                adopting = [o for o in outs if o['did_setptr'].get(this)]
                idle = [o for o in outs if not o['did_setptr'].get(this)]
                base_ = m.base_of(r)
                if len(csrcs) == 1 and adopting and idle and base_ is not None:
                    sp = csrcs[0]
                    Pn, Nn = base_[1], base_[2]
                    for o in idle:
                        pth = o['path']
                        eqs = [unver(c_) for c_, pol_, _n in pth.conds if pol_ is True and isinstance(unver(c_), tuple) and unver(c_)[0] == 'eq']
                        same_ptr = any(('field', this, Pn) in e_[1:] and any(isinstance(x_, tuple) and x_[0] == 'call' and last(x_[1]) == 'data' and x_[2] == sp
                                                                           for x_ in e_[1:]) for e_ in eqs)
                        same_size = any(Nn in e_[1:] and any(isinstance(x_, tuple) and x_[0] == 'call' and last(x_[1]) == 'size' and x_[2] == sp
                                                             for x_ in e_[1:]) for e_ in eqs)
                        txt = ', '.join('%s is %s' % (show(unver(c_)), p_) for c_, p_, _n in pth.conds)
                        if same_ptr and same_size:
                            continue
                        if same_ptr:
                            ctx.violation('R-C11-6', inst, 'on the path [%s] the assignment returns without setPtr because the view already points at `%s.data()`: '
                                          'the size is not compared and keeps the value of the previous assignment. A std::vector changes its length '
                                          'without changing data() (push_back within capacity, pop_back, resize, clear), and a view can have been reset() to '
                                          'a prefix of the same block: after `view = %s` size() / at() / iteration do not cover exactly the container\'s '
                                          'elements' % (txt, show(sp), show(sp)), loc,
                                          key='%s|%s|%s|view-not-reseated' % ('R-C11-6', file, pname),
                                          path=['%s (%s)' % (f['q'], loc), 'returns through blocks %s without setPtr' % (list(pth.blocks),)])
                        else:
                            ctx.undecided('R-C11-6', inst, 'a path [%s] leaves the view untouched while others re-seat it on the container' % txt, loc)
                        exit_bad = True
                        break
            if not generated and owners and f.get('access') in (None, 'public', 'none') and not f.get('ctor') and outs:
                elem_t = m.elem(r).get('t')
                srcs = [('param', i_, p_.get('name') or '') for i_, p_ in enumerate(f.get('params', []))
                        if norm_type(p_['ct']) == '%s *' % elem_t or norm_type(p_['ct']).startswith('std::vector<%s' % elem_t)
                        or norm_type(p_['ct']).startswith('std::array<%s' % elem_t)]
                adopting = [o for o in outs if o['did_setptr'].get(this)]
                idle = [o for o in outs if not o['did_setptr'].get(this) and not o['mutated'].get(this)]
                if srcs and adopting and idle:
                    for o in idle:
                        conds = [unver(c_) for c_, _p, _n in o['path'].conds]
                        about_src = conds and all(any(contains(c_, sp) for sp in srcs) and not contains(c_, this) for c_ in conds)
                        txt = ', '.join('%s is %s' % (show(c_), p_) for c_, p_, _n in o['path'].conds)
                        if about_src:
                            ctx.violation('R-C11-6', inst, 'on the path [%s] the function returns without touching the array, while its other paths adopt the '
                                          'source (allocate / copy / setPtr): for such a source the array keeps its previous size and contents instead of '
                                          'becoming a copy of it (an empty source must give an empty array)' % txt, loc,
                                          key='%s|%s|%s|source-not-adopted' % ('R-C11-6', file, pname),
                                          path=['%s (%s)' % (f['q'], loc), 'returns through blocks %s without setPtr' % (list(o['path'].blocks),)])
                        else:
                            ctx.undecided('R-C11-6', inst, 'a path [%s] leaves the array untouched while others adopt the source' % txt, loc)
                        exit_bad = True
                        break
            if not generated and owners and f.get('access') in (None, 'public', 'none'):
                for o in outs:
                    for X, s in o['states'].items():
                        if s == 'S':
                            continue
                        if s == 'A' and m.shares_storage(r) and o['alias'].get(X) is not None and owners and \
                                all(o['src'].get((X, M_)) == ('copyof', ('field', o['alias'][X], M_)) for M_, k_, i_ in owners):
                            continue    # member-wise copy from a complete object whose storage is shared: view and owner were taken together
                        if X != this and X not in [k for k in o['states']]:
                            continue
                        d = o['dirty_by'].get(X)
                        dl = tu.loc(d.node) if d is not None and d.node is not None else loc
                        what = tu.show(d.node) if d is not None and d.node is not None else '?'
                        who = '*this' if X == this else '`%s`' % show(X)
                        if X in o['unknown']:
                            ctx.undecided(R2, inst, 'call `%s` may change the owner member of %s and no setPtr follows; the callee is not in the '
                                          'vocabulary of reallocating / non-reallocating operations' % (what, who), dl)
                            exit_bad = True
                            continue
                        if R2 in bad or R1 in bad or R6 in bad:
                            continue    # consequence of a finding already reported for this function
                        if s == 'A':
                            why = ('the base (pointer, size) of %s is copied from `%s`, whose pointer refers to that object\'s own storage, and no setPtr '
                                   're-points it to the storage of %s' % (who, show(o['alias'].get(X)), who))
                            kind = 'view-copied-not-repointed'
                        else:
                            why = ('%s can return after `%s` changed the owner member of %s without a following setPtr that re-reads it: the view '
                                   'pointer / size are stale' % (short(strip_targs(f['q'])), what, who))
                            kind = 'owner-changed-without-setPtr'
                        pth = ['entry %s (%s)' % (f['q'], loc), 'owner changed at %s: %s' % (dl, what),
                               'return reached through blocks %s without setPtr' % (list(o['path'].blocks),)]
                        ctx.violation(R2, inst, why, dl, key='%s|%s|%s|%s' % (R2, file, pname, kind), path=pth)
                        exit_bad = True
            if not generated and not bad and not exit_bad and not any(fd.undecided for fd in findings):
                nm = sum(len(v) for o in outs for v in o['mutated'].values())
                ns = sum(1 for o in outs for v in o['did_setptr'].values() if v)
                ctx.ok(R2, inst, '%d path(s); owner mutations %d, each followed by setPtr from the owner; exit states %s'
                       % (len(outs), nm, sorted({s for o in outs for s in o['states'].values()})), loc, nontrivial=bool(nm or ns))
                n2 += 1
    ctx.floor(R2, n2, 25, '35 member functions x 3 element types on the pinned tree (quick): 105 analysed')
    ctx.floor(R1, wa.nsetptr, 30, 'setPtr call sites x instantiations on the pinned tree: 60+')
    ctx.floor(R6, wa.nmemcpy, 6, 'FixedArray memcpy sites (3 functions x 3 element types)')
    # ---- R-C11-1 per class: provenance table, and the through-another-wrapper clause
    n1 = 0
    for rtype, r in sorted(m.wrappers.items()):
        owners = m.owners(r)
        prov = wa.prov.get(r['q'], set())
        inst = short(rtype) + tag
        file = rec_file(tu, r)
        rname = short(r['q'])
        n1 += 1
        problems = False
        for name, kind, inner in owners:
            if kind == 'sp_other':
                ctx.undecided(R1, inst, 'member `%s` is a smart pointer whose pointee is neither the element type nor another wrapper' % name, file)
                problems = True
            if kind == 'sp_wrapper' and ('own:sp_wrapper' in prov):
                w = m.wrappers.get(inner)
                muts = public_mutators(tu, m, wa, w) if w is not None else None
                if muts is None:
                    ctx.undecided(R1, inst, 'cannot analyse the wrapper `%s` that member `%s` points to' % (inner, name), file)
                    problems = True
                elif muts:
                    ctx.violation(R1, inst, 'the view points into the storage of the `%s` that member `%s` (a shared_ptr) keeps alive, but the shared_ptr '
                                  'protects only that object, not its allocation: %s replace(s) the allocation while the view is alive, leaving the '
                                  'view dangling' % (short(inner), name, ', '.join(sorted(set(muts)))), file,
                                  key='%s|%s|%s|view-through-replaceable-owner' % (R1, file, rname),
                                  path=['%s::%s keeps %s alive' % (rname, name, short(inner))] + ['%s can replace the allocation' % x for x in sorted(set(muts))])
                    problems = True
        if not problems:
            ctx.ok(R1, inst, 'owner members %s; setPtr sources %s' % ([(n, k) for n, k, i in owners] or 'none (non-owning view)', sorted(prov)), file)
    ctx.floor(R1, n1, 12, '4 wrapper classes x 3 element types')
    # ---- R-C11-3
    n3 = 0
    for rtype, r in sorted(m.wrappers.items()):
        owners = m.owners(r)
        inst = short(rtype) + tag
        file = rec_file(tu, r)
        rname = short(r['q'])
        n3 += 1
        gen = [k for k in ('copy_ctor', 'copy_assign', 'move_ctor', 'move_assign')
               if r.get(k, {}).get('has') and not r[k].get('user') and not r[k].get('deleted')]
        unique = [(n, k) for n, k, i in owners if k in ('vec', 'up_alloc')] + \
                 [(n, k) for n, k, i in owners if k == 'wrapper' and not (m.wrappers.get(i) and m.shares_storage(m.wrappers[i]))]
        # member-wise move: a smart-pointer owner is emptied in the source; so is a by-value wrapper member whose own move is of that kind
        gen_move = [k for k in ('move_ctor', 'move_assign') if r.get(k, {}).get('has') and not r[k].get('user') and not r[k].get('deleted')]

        def move_empties(w, seen=()):
            if w is None or w['type'] in seen:
                return False
            gm = [k for k in ('move_ctor', 'move_assign') if w.get(k, {}).get('has') and not w[k].get('user') and not w[k].get('deleted')]
            if not gm:
                return False
            return any(k in ('sp_alloc', 'sp_wrapper', 'sp_other') or (k == 'wrapper' and move_empties(m.wrappers.get(i), seen + (w['type'],)))
                       for n, k, i in m.owners(w))
        handles = [(n, next((f_['ct'] for f_ in r['fields'] if f_['name'] == n), k)) for n, k, i in owners
                   if k in ('sp_alloc', 'sp_wrapper', 'sp_other') or (k == 'wrapper' and move_empties(m.wrappers.get(i)))]
        base_ = m.base_of(r)
        base_r = base_[0] if base_ else None
        base_moves = False
        if base_r is not None and any(base_r.get(k, {}).get('has') for k in ('move_ctor', 'move_assign')):
            base_moves = None if any(base_r.get(k, {}).get('user') for k in ('move_ctor', 'move_assign')) else False
        unsure = [(n, i) for n, k, i in owners if k == 'wrapper' and m.wrappers.get(i) is not None
                  and any(m.wrappers[i].get(k_, {}).get('user') for k_ in ('copy_ctor', 'copy_assign')) and m.copy_sharing.get(i) is None]
        if unsure and gen and not unique:
            ctx.undecided(R3, inst, 'member `%s` is a by-value %s with user-provided copy operations, and whether its copy shares the source\'s block or '
                          'gets one of its own could not be decided' % (unsure[0][0], short(unsure[0][1])), file)
        elif unique and gen:
            deep = [(n, i) for n, k, i in owners if k == 'wrapper' and m.copy_sharing.get(i) is False]
            extra = ''
            if deep and deep[0][0] == unique[0][0]:
                extra = (' - the member\'s type %s has user-provided copy operations that give every copy a block of its own (deep copy), so the '
                         'copied member no longer shares the allocation the copied pointer refers to' % short(deep[0][1]))
            ctx.violation(R3, inst, '%s has compiler-generated %s: they copy the base\'s raw pointer member-wise, so the copy\'s view points into the '
                          'storage of the *source\'s* member `%s` (dangling once the source is destroyed, resized or reassigned)%s'
                          % (rname, ', '.join(x.replace('_', ' ') for x in gen), unique[0][0], extra), file,
                          key='%s|%s|%s|implicit-copy' % (R3, file, rname),
                          path=['%s::%s is a by-value %s' % (rname, unique[0][0], unique[0][1]), 'setPtr sources: %s' % sorted(wa.prov.get(r['q'], ()))])
        elif gen_move and handles and base_moves is None:
            ctx.undecided(R3, inst, 'the base %s has user-provided move operations; whether a member-wise move of %s leaves the source with a view it '
                          'no longer keeps alive is not decided' % (short(base_r['type']) if base_r else '?', rname), file)
        elif gen_move and handles and not base_moves:
            ctx.violation(R3, inst, '%s has compiler-generated (defaulted) %s: a member-wise move hands the owner member `%s` (%s) over and leaves it '
                          'empty in the source, while the base (pointer, size) of the source is only copied (the base has no move operations and a raw '
                          'pointer does not reset itself). The moved-from array still reports its old data() and size() but no longer co-owns the '
                          'block: once the destination lets go of it, a live object points into freed storage (without declared move operations '
                          'std::move falls back to the copy and both share the block; a user-provided move must reset the source, as OwnedArray does)'
                          % (rname, ', '.join(x.replace('_', ' ') for x in gen_move), handles[0][0], handles[0][1]), file,
                          key='%s|%s|%s|implicit-move' % (R3, file, rname),
                          path=['%s::%s is a %s' % (rname, handles[0][0], handles[0][1]),
                                'move operations of the base %s: none (copies pointer and size)' % (short(base_r['type']) if base_r else '?')])
        else:
            ctx.ok(R3, inst, ('no uniquely owned by-value storage' if not unique else 'copy/move operations are user-provided or deleted: %s'
                              % {k: ('user' if r.get(k, {}).get('user') else 'deleted' if r.get(k, {}).get('deleted') else 'absent')
                                 for k in ('copy_ctor', 'copy_assign', 'move_ctor', 'move_assign')}), file, nontrivial=bool(unique))
    ctx.floor(R3, n3, 12, '4 wrapper classes x 3 element types')


def rec_file(tu, r):
    """header that defines the record (through any member function of it)"""
    for f in tu.functions.values():
        if f.get('recid') == r['id'] and not f.get('implicit'):
            return tu.fn_file(f)
    for f in tu.functions.values():
        if f.get('rec') == r['q'] and not f.get('implicit') and not f['dep']:
            return tu.fn_file(f)
    return '?'


def public_mutators(tu, m, wa, w):
    """names of public operations of wrapper record w (constructors excluded) that replace / change its owner member"""
    out = []
    found = False
    for f in tu.functions.values():
        if f['dep'] or f.get('recid') != w['id'] or tu.cfg(f) is None:
            continue
        found = True
        if f.get('ctor') or f.get('dtor') or f.get('access') not in (None, 'public', 'none'):
            continue
        if f.get('implicit') or (f.get('defaulted') and f.get('assign')):
            continue    # compiler-generated assignments are taken from the record facts below
        outs, findings = wa.analyse(f, w)
        if any(o['mutated'].get(('this',)) for o in outs):
            nm = pattern_name(tu, f)
            out.append(nm)
    for k, label in (('copy_assign', 'copy assignment'), ('move_assign', 'move assignment')):
        s = w.get(k, {})
        if s.get('has') and not s.get('deleted') and m.owners(w):
            out.append('%s::operator= <%s>' % (short(w['q']), label))
    return out if found else None


# ============================================================================================
#  R-C11-4 : AbstractArray accessors
# ============================================================================================
def check_abstract(ctx, tu, tag=''):
    R4 = 'R-C11-4'
    ctx.describe(R4, 'AbstractArray: at(i) dereferences ptr+i only under i < size() and throws otherwise; operator[], begin, end, data, '
                     'size, cbegin, cend, operator bool, operator T* and setPtr agree on the stored range ((pointer, count) or (begin, end)): '
                     'on every path of setPtr the extent equals the size argument')
    m = Model(tu)
    # inside AbstractArray its own members are followed too (a [[noreturn]] throwing helper, at() going through operator[]);
    # setPtr is analysed as an entry
    se = mk_se(tu, inline_stmt=lambda f: follow_c11(f) or (f.get('rec') == ABS and last(strip_targs(f['q'])) != 'setPtr'))
    n = 0
    for r in m.unrecognised:
        ctx.undecided(R4, short(r['type']) + tag, 'the members %s are neither (pointer, count) nor (begin pointer, end pointer with begin() '
                      'returning one of them)' % [(f['name'], f['ct']) for f in r['fields']], rec_file(tu, r))
    for btype, (r, P, size_nf) in sorted(m.bases.items()):
        rep = m.reps[btype]
        this = ('this',)
        ptr = ('field', this, P)
        # the element count as size() computes it (a conversion of the pointer difference to size_t is part of it)
        num = size_nf
        for f in tu.functions.values():
            if f.get('recid') == r['id'] and not f['dep'] and tu.cfg(f) is not None and last(strip_targs(f['q'])) == 'size':
                try:
                    rets = {unver(p.term[1]) for p in se.paths(f) if p.term[0] == 'return' and p.term[1] is not None}
                except Unsupported:
                    rets = set()
                if len(rets) == 1:
                    x = rets.pop()
                    if x == size_nf or (isinstance(x, tuple) and x[0] == 'cast' and x[2] == size_nf):
                        num = x
        endv = rep['end']
        p0 = lambda f: ('param', 0, f['params'][0].get('name') or '') if f.get('params') else None
        expected = {
            'size': lambda f: num, 'begin': lambda f: ptr, 'data': lambda f: ptr, 'cbegin': lambda f: ptr,
            'end': lambda f: endv, 'cend': lambda f: endv,
            'operator bool': lambda f: ('not', ('eq', ('const', 0), num)),
            'operator[]': lambda f: ('deref', mk_comm('add', [ptr, p0(f)])),
        }
        file = rec_file(tu, r)
        for f in sorted((f for f in tu.functions.values() if f.get('recid') == r['id'] and not f['dep'] and tu.cfg(f) is not None),
                        key=lambda f: f['l']):
            name = last(strip_targs(f['q']))
            inst = inst_name(f) + tag
            loc = tu.fn_loc(f)
            pname = pattern_name(tu, f)
            if f.get('ctor') or f.get('dtor') or f.get('assign'):
                continue
            try:
                paths = se.paths(f)
            except Unsupported as e:
                ctx.undecided(R4, inst, str(e), loc)
                continue
            if re.search(r'::operator [A-Za-z_]', f['q']):
                name_key = 'operator bool' if f['q'].endswith('::operator bool') else 'conv'
                name = name_key
            else:
                name_key = name
            if name_key in expected or name_key == 'conv':
                want = ptr if name_key == 'conv' else expected[name_key](f)
                n += 1
                rets = [unver(p.term[1]) for p in paths if p.term[0] == 'return']
                muts = [e for p in paths for e in p.events if e.kind in ('store', 'mutate')]
                alt = ('not', ('eq', ('null',), ptr)) if name_key == 'operator bool' else None   # same thing under setPtr's invariant
                if len(paths) == 1 and rets == [want] and not muts:
                    ctx.ok(R4, inst, 'returns %s' % show(want), loc)
                elif len(paths) == 1 and alt is not None and rets == [alt] and not muts:
                    ctx.ok(R4, inst, 'returns %s' % show(alt), loc)
                elif name_key in ('operator bool', 'conv'):
                    ctx.undecided(R4, inst, 'returns `%s`; expected `%s`' % ([show(x) for x in rets], show(want)), loc)
                elif any(not isinstance(x, tuple) or find_all(x, lambda t: t[0] in ('opaque', 'call')) for x in rets):
                    ctx.undecided(R4, inst, 'returns `%s`; cannot compare with `%s`' % ([show(x) for x in rets], show(want)), loc)
                else:
                    ctx.violation(R4, inst, '%s must return `%s` but returns `%s`' % (name, show(want), ' / '.join(show(x) for x in rets)), loc,
                                  key='%s|%s|%s|wrong-value' % (R4, file, pname))
            elif name == 'at':
                n += 1
                off = p0(f)
                guard = ('lt', off, num)
                want = ('deref', mk_comm('add', [ptr, off]))
                probs = []
                und = []
                if re.search(r'\bnoexcept\b(?!\s*\(\s*false)', f['fty']) and any(p.term[0] == 'throw' for p in paths):
                    probs.append(('throw-in-noexcept',
                                  'at() is declared noexcept (`%s`) but its out-of-range path throws %s: the exception cannot leave the function - '
                                  'std::terminate is called instead, so a caller cannot catch the documented bounds failure (at(i) must throw for '
                                  'i >= size())' % (f['fty'], next(p.term[1] for p in paths if p.term[0] == 'throw'))))
                for p in paths:
                    g = p.cond_of(guard)
                    if p.term[0] == 'return':
                        rv = unver(p.term[1])
                        if rv != want:
                            if find_all(rv, lambda t: t[0] in ('opaque', 'call')):
                                und.append('returns `%s`' % show(rv))
                            else:
                                probs.append(('wrong-element', 'returns `%s` instead of `%s`' % (show(rv), show(want))))
                        if g is not True:
                            conds = ', '.join('%s is %s' % (show(c), pol) for c, pol, _ in p.conds) or 'no test at all'
                            other = [c for c, pol, _ in p.conds if contains(unver(c), off) and contains(unver(c), num)]
                            probs.append(('unguarded', 'the element is dereferenced on a path where `%s` is not established (path conditions: %s)'
                                          % (show(guard), conds)))
                    elif p.term[0] == 'throw':
                        if g is True:
                            probs.append(('throws-in-bounds', 'throws although `%s` holds' % show(guard)))
                    else:
                        probs.append(('no-result', 'a path neither returns an element nor throws'))
                if und and not probs:
                    ctx.undecided(R4, inst, '; '.join(und), loc)
                elif probs:
                    for kind, why in sorted(set(probs)):
                        ctx.violation(R4, inst, why, loc, key='%s|%s|%s|%s' % (R4, file, pname, kind))
                else:
                    ctx.ok(R4, inst, 'dereference under %s; all other paths throw' % show(guard), loc)
            elif name == 'setPtr':
                n += 1
                a0 = ('param', 0, f['params'][0].get('name') or '')
                a1 = ('param', 1, f['params'][1].get('name') or '')
                probs = []
                und = []
                for p in paths:
                    stores = {}
                    for e in p.events:
                        if e.kind == 'store' and e.place is not None:
                            # a member read after it was stored on this path has the stored value
                            stores[e.place] = se._subst(unver(e.value), dict(stores))
                    zero_path = p.cond_of(('eq', ('const', 0), a1)) is True
                    if rep['N'] is not None:
                        cnt = ('field', this, rep['N'])
                        if stores.get(cnt) != a1 and not (zero_path and stores.get(cnt) == ('const', 0)):
                            probs.append(('size-not-stored', '%s is set to `%s` instead of the size argument'
                                          % (rep['N'], show(stores[cnt]) if cnt in stores else 'nothing')))
                    else:
                        # (begin, end) representation: end - begin must be the size argument on every path, i.e. both are derived
                        # from the same base pointer value
                        endm = ('field', this, rep['E'])
                        pvs, evs_ = stores.get(ptr), stores.get(endm)
                        if evs_ is None:
                            probs.append(('size-not-stored', '%s is not set' % rep['E']))
                        elif pvs is not None:
                            sub0 = {a1: ('const', 0)} if zero_path else {}
                            renorm = lambda x: mk_comm('add', [se._subst(y, sub0) for y in x[1:]]) if isinstance(x, tuple) and x and x[0] == 'add' \
                                else se._subst(x, sub0)
                            got = renorm(evs_)
                            want_e = renorm(mk_comm('add', [pvs, a1]))
                            if got != want_e:
                                simple = lambda x: not find_all(x, lambda t: t[0] in ('opaque', 'call', 'var', 'cond', 'cast'))
                                if simple(got) and simple(want_e):
                                    probs.append(('extent-base-mixed',
                                                  'on the path %s `%s` is set to `%s` but `%s` to `%s`: the two ends of the range are derived from different '
                                                  'base pointers (the normalised member vs the raw argument), so size() = %s - %s is not the size argument '
                                                  '(an empty array from a non-null source becomes [nullptr, source): size() huge, at(0) does not throw)'
                                                  % ('where the size is zero' if zero_path else 'where the size is non-zero', P, show(pvs), rep['E'], show(evs_),
                                                     rep['E'], P)))
                                else:
                                    und.append('%s is set to `%s` and %s to `%s`' % (P, show(pvs), rep['E'], show(evs_)))
                    pv = stores.get(ptr)
                    zero = p.cond_of(('eq', ('const', 0), a1))
                    if pv == a0:
                        pass
                    elif pv == ('null',) and zero is True:
                        pass
                    elif pv is None:
                        probs.append(('ptr-not-stored', 'ptr is not set'))
                    elif pv == ('null',):
                        probs.append(('ptr-not-stored', 'ptr is set to nullptr on a path where the size is not known to be zero'))
                    else:
                        und.append('ptr is set to `%s`' % show(pv))
                if probs:
                    for kind, why in sorted(set(probs)):
                        ctx.violation(R4, inst, why, loc, key='%s|%s|%s|%s' % (R4, file, pname, kind))
                elif und:
                    ctx.undecided(R4, inst, '; '.join(und), loc)
                else:
                    ctx.ok(R4, inst, 'stores (begin, extent) = (argument or nullptr when empty, size argument) on every path', loc)
    ctx.floor(R4, n, 33, '11 members (10 accessors + setPtr) x 3 element types')


# ============================================================================================
#  R-C11-5 : DataView
# ============================================================================================
def typed_index_verdict(se, tu, r, f, p, rv, ptr, stride, idx, et, stride_name):
    """operator[] path that indexes a typed pointer: *((const T*)ptr + index * X), X a member precomputed from the stride.
    Element arithmetic scales by sizeof(T), so the byte offset is index * X * sizeof(T); with X = stride / sizeof(T) (integer division)
    under a divisibility test stride % A == 0 that is index * stride exactly when sizeof(T) divides every stride the test lets
    through, i.e. when A is a multiple of sizeof(T).  Returns None when the path is not of this form."""
    this = ('this',)
    if not (isinstance(rv, tuple) and rv[0] == 'deref' and isinstance(rv[1], tuple) and rv[1][0] == 'add' and len(rv[1]) == 3):
        return None
    base = [x for x in rv[1][1:] if isinstance(x, tuple) and ((x[0] == 'cast' and x[2] == ptr) or (x == ptr and et.get('size') == 1))]
    off = [x for x in rv[1][1:] if x not in base]
    if len(base) != 1 or len(off) != 1:
        return None
    o = off[0]
    if not (isinstance(o, tuple) and o[0] == 'mul' and len(o) == 3 and idx in o[1:]):
        return None
    X = [x for x in o[1:] if x != idx][0]
    if not (isinstance(X, tuple) and X[:2] == ('field', this) and len(X) == 3) or X in (ptr, stride):
        return None
    S = et.get('size')
    # the value every (data, stride) initialiser gives X, as a function of its stride argument
    defs = set()
    for g_ in tu.functions.values():
        if g_.get('recid') != r['id'] or g_['dep'] or tu.cfg(g_) is None or len(g_.get('params', [])) != 2:
            continue
        if not (g_.get('ctor') == 'other' or last(strip_targs(g_['q'])) == 'reset'):
            continue
        a1 = ('param', 1, g_['params'][1].get('name') or '')
        try:
            pieces = []
            for q in se.paths(g_):
                vals = {}
                for e in q.events:
                    if e.kind in ('store', 'init') and e.place is not None:
                        vals[e.place] = unver(e.value)
                if vals.get(stride) != a1 or X not in vals:
                    return ('und', 'the member `%s` used for typed indexing is not set together with `%s` by %s' % (X[2], stride_name, g_['q']))
                cs = [(se._subst(unver(c_), {a1: ('STRIDE',)}), pol_) for c_, pol_, _n in q.conds if contains(unver(c_), a1)]
                pieces.append((tuple(cs), se._subst(vals[X], {a1: ('STRIDE',)})))
            if len(pieces) == 1 and not pieces[0][0]:
                defs.add(pieces[0][1])
            elif len(pieces) == 2 and all(len(pc[0]) == 1 for pc in pieces) and pieces[0][0][0][0] == pieces[1][0][0][0] \
                    and pieces[0][0][0][1] != pieces[1][0][0][1]:
                t_ = [pc for pc in pieces if pc[0][0][1]][0]
                f_ = [pc for pc in pieces if not pc[0][0][1]][0]
                defs.add(('cond', t_[0][0][0], t_[1], f_[1]))      # the helper that computes it was followed: one value per branch
            else:
                return ('und', 'the member `%s` used for typed indexing is computed on %d paths of %s' % (X[2], len(pieces), g_['q']))
        except Unsupported as e:
            return ('und', str(e))
    if len(defs) != 1:
        return ('und', 'the member `%s` used for typed indexing has %d different definitions' % (X[2], len(defs)))
    d = defs.pop()
    nonzero = p.cond_of(('eq', ('const', 0), X)) is False
    sz = lambda x: isinstance(x, tuple) and ((x[0] == 'sizeof' and x[2] == S) or x == ('const', S))
    if isinstance(d, tuple) and d[0] == 'cond' and d[3] == ('const', 0) and nonzero:
        C, Q = d[1], d[2]
        if isinstance(Q, tuple) and Q[:3] == ('binop', '/', ('STRIDE',)) and sz(Q[3]) and isinstance(C, tuple) and C[0] == 'eq' \
                and ('const', 0) in C[1:]:
            m = [x for x in C[1:] if x != ('const', 0)][0]
            if isinstance(m, tuple) and m[:3] == ('binop', '%', ('STRIDE',)) and (m[3][0] in ('const', 'sizeof')):
                A = m[3][1] if m[3][0] == 'const' else m[3][2]
                if isinstance(A, int) and A > 0 and A % S == 0:
                    return ('ok', 'typed indexing with %s = %s/sizeof(T), used only when %d divides %s: the same address as ptr + index*%s'
                            % (X[2], stride_name, A, stride_name, stride_name))
                if isinstance(A, int) and A > 0:
                    return ('viol', 'typed-index-rounds-stride',
                            'on the path where `%s` != 0 the element is read at ((const T*)ptr)[index * %s] with %s = %s / sizeof(T) = %s / %d, chosen whenever '
                            '%s %% %d == 0: for a stride that is a multiple of %d but not of %d the division truncates and element i is read at byte '
                            'offset i*(%s/%d)*%d instead of i*%s (e.g. %d-byte elements stored every %d bytes)'
                            % (X[2], X[2], X[2], stride_name, stride_name, S, stride_name, A, A, S, stride_name, S, S, stride_name, S, (S // A + 1) * A))
    return ('und', 'typed indexing through `%s` (= %s) is not in a recognised form' % (X[2], show(d)))


def check_dataview(ctx, tu, tag=''):
    R5 = 'R-C11-5'
    ctx.describe(R5, 'DataView::operator[](i) is *(const T*)(ptr + i*stride) with ptr of byte type on every returning path (a reference into '
                     'the viewed storage, never to a member of the view); the constructor and reset store (data, stride)')
    se = mk_se(tu)
    n = 0
    for r in sorted((r for r in tu.records.values() if r.get('tmpl') == DATAVIEW), key=lambda r: r['type']):
        # the viewed pointer and the stride: the pointer member and the integer member (other members - caches, scratch
        # storage - are tolerated); with several candidates, the members the (data, stride) constructor stores its arguments in
        pf = [f for f in r['fields'] if f['ct'].endswith('*')]
        if len(pf) > 1 and len([f for f in pf if f['ct'] in BYTE_PTR]) == 1:
            pf = [f for f in pf if f['ct'] in BYTE_PTR]
        sf = [f for f in r['fields'] if f['ct'] in INT_TYPES]
        inst0 = short(r['type']) + tag
        file = rec_file(tu, r)
        this = ('this',)
        if len(pf) != 1 or len(sf) != 1:
            got = {}
            for f in tu.functions.values():
                if f.get('recid') == r['id'] and f.get('ctor') == 'other' and len(f.get('params', [])) == 2 and tu.cfg(f) is not None:
                    try:
                        for p in se.paths(f):
                            for e in p.events:
                                if e.kind in ('store', 'init') and e.place is not None and e.place[:2] == ('field', this):
                                    v = unver(e.value)
                                    if isinstance(v, tuple) and v and v[0] == 'cast':
                                        v = v[2]
                                    if isinstance(v, tuple) and v and v[0] == 'param':
                                        got.setdefault(v[1], set()).add(e.place[2])
                    except Unsupported:
                        pass
            if len(got.get(0, ())) == 1 and len(got.get(1, ())) == 1:
                pn, sn = list(got[0])[0], list(got[1])[0]
                pf = [f for f in r['fields'] if f['name'] == pn]
                sf = [f for f in r['fields'] if f['name'] == sn]
        if len(pf) != 1 or len(sf) != 1:
            if not pf or not sf:
                ctx.broken('R-C11-5: %s has no pointer member / no integer stride member' % r['type'])
            else:
                ctx.undecided(R5, inst0, 'cannot tell which of the members %s / %s are the viewed pointer and the stride'
                              % ([f['name'] for f in pf], [f['name'] for f in sf]), file)
            continue
        ptr = ('field', this, pf[0]['name'])
        stride = ('field', this, sf[0]['name'])
        et = (r.get('targs') or [{}])[0]
        n += 1
        if pf[0]['ct'] not in BYTE_PTR:
            ctx.violation(R5, inst0, 'member `%s` has type `%s`: pointer arithmetic on it is not in bytes' % (pf[0]['name'], pf[0]['ct']), file,
                          key='%s|%s|DataView|pointer-not-byte-typed' % (R5, file))
        else:
            ctx.ok(R5, inst0, '`%s` is a byte pointer (%s)' % (pf[0]['name'], pf[0]['ct']), file)
        for f in sorted((f for f in tu.functions.values() if f.get('recid') == r['id'] and not f['dep'] and tu.cfg(f) is not None),
                        key=lambda f: f['l']):
            name = last(strip_targs(f['q']))
            inst = inst_name(f) + tag
            loc = tu.fn_loc(f)
            pname = pattern_name(tu, f)
            if f.get('implicit') or f.get('dtor') or f.get('assign') or f.get('ctor') in ('copy', 'move', 'default'):
                continue
            try:
                paths = se.paths(f)
            except Unsupported as e:
                ctx.undecided(R5, inst, str(e), loc)
                continue
            if name == 'operator[]':
                n += 1
                idx = ('param', 0, f['params'][0].get('name') or '')
                byteaddr = mk_comm('add', [ptr, mk_comm('mul', [idx, stride])])
                for p in paths:
                    rv = unver(p.term[1]) if p.term[0] == 'return' else None
                    okv = False
                    if isinstance(rv, tuple) and rv[0] == 'deref' and isinstance(rv[1], tuple) and rv[1][0] == 'cast' and rv[1][2] == byteaddr:
                        tgt = norm_type(rv[1][1]).rstrip('*').strip()
                        if tgt == et.get('t'):
                            okv = True
                    if rv == ('deref', byteaddr) and norm_type(pf[0]['ct']).rstrip('*').strip() == et.get('t'):
                        okv = True      # element type is the byte type itself: the cast is the identity
                    if okv:
                        ctx.ok(R5, inst, 'returns %s' % show(rv), loc)
                        continue
                    # typed indexing through a derived member: ((const T*)ptr)[index * X] with X precomputed from the stride
                    tdec = typed_index_verdict(se, tu, r, f, p, rv, ptr, stride, idx, et, sf[0]['name'])
                    if tdec is not None:
                        if tdec[0] == 'ok':
                            ctx.ok(R5, inst, tdec[1], loc)
                        elif tdec[0] == 'viol':
                            ctx.violation(R5, inst, tdec[2], loc, key='%s|%s|%s|%s' % (R5, file, pname, tdec[1]))
                        else:
                            ctx.undecided(R5, inst, tdec[1], loc)
                        continue
                    # recognised wrong forms
                    why = None
                    kind = None
                    own_members = [x for x in find_all(rv, lambda t: t[0] == 'addr' and isinstance(t[1], tuple) and t[1][:2] == ('field', this))] \
                        if rv is not None else []
                    if isinstance(rv, tuple) and rv[:2] == ('field', this) and rv not in (ptr, stride):
                        own_members = [('addr', rv)]       # `return member;` binds the returned reference to the member itself
                    if own_members and not contains(rv, ptr):
                        m = own_members[0][1][2]
                        kind = 'reference-to-view-member'
                        conds = ', '.join('%s is %s' % (show(c), pol) for c, pol, _ in p.conds) or 'always'
                        why = ('on the path [%s] operator[] returns a reference to the view\'s own member `%s` (`%s`), not to the element at '
                               'ptr + index*stride: the result is a snapshot in one slot shared by all indices - its address is not the '
                               'element\'s, two elements used together are the same object, later changes of the source are not seen'
                               % (conds, m, show(rv)))
                    if rv is not None and why is None:
                        casts = find_all(rv, lambda t: t[0] == 'cast')
                        adds = find_all(rv, lambda t: t[0] == 'add')
                        uses_stride = contains(rv, stride)
                        uses_idx = contains(rv, idx)
                        uses_ptr = contains(rv, ptr)
                        opaque = find_all(rv, lambda t: t[0] in ('opaque', 'call', 'var'))
                        if not opaque and uses_ptr:
                            if not uses_stride:
                                kind, why = 'ignores-stride', 'element address `%s` does not use the stride' % show(rv)
                            elif not uses_idx:
                                kind, why = 'ignores-index', 'element address `%s` does not use the index' % show(rv)
                            elif casts and any(contains(a, c) for a in adds for c in casts if c[2] == ptr):
                                kind, why = 'arithmetic-in-elements', 'the pointer is cast to the element type before the offset is added: `%s` ' \
                                                                      '(offset scaled by sizeof(T))' % show(rv)
                            else:
                                kind, why = 'wrong-address', 'element address is `%s` instead of `%s`' % (show(rv), show(('deref', ('cast', 'const T *', byteaddr))))
                    if why:
                        ctx.violation(R5, inst, why, loc, key='%s|%s|%s|%s' % (R5, file, pname, kind))
                    else:
                        ctx.undecided(R5, inst, 'cannot relate `%s` to *(const T*)(ptr + index*stride)' % (show(rv) if rv else p.term[0]), loc)
            elif f.get('ctor') == 'other' or name == 'reset':
                n += 1
                a0 = ('param', 0, f['params'][0].get('name') or '') if len(f.get('params', [])) > 0 else None
                a1 = ('param', 1, f['params'][1].get('name') or '') if len(f.get('params', [])) > 1 else None
                if a0 is None or len(f.get('params', [])) > 2:
                    ctx.undecided(R5, inst, 'unexpected parameter list', loc)
                    continue
                if a1 is None:
                    # (re)initialiser that takes only the data pointer: the layout must not be left over from the previous one -
                    # the stride is set to the dense default sizeof(T) (what the defaulted argument of the two-parameter form gives)
                    for p in paths:
                        vals = {}
                        for e in p.events:
                            if e.kind in ('store', 'init') and e.place is not None:
                                vals[e.place] = unver(e.value)
                        pv = vals.get(ptr)
                        if isinstance(pv, tuple) and pv and pv[0] == 'cast':
                            pv = pv[2]
                        sv = vals.get(stride)
                        if pv != a0:
                            (ctx.violation(R5, inst, '`%s` is set to `%s` instead of the data argument' % (pf[0]['name'], show(pv) if pv else 'nothing'), loc,
                                           key='%s|%s|%s|data-not-stored' % (R5, file, pname)) if pv is None or not find_all(pv, lambda t: t[0] in ('opaque', 'call', 'var'))
                             else ctx.undecided(R5, inst, '`%s` is set to `%s`' % (pf[0]['name'], show(pv)), loc))
                        elif sv is None and not f.get('ctor'):
                            ctx.violation(R5, inst, '%s(%s) re-points the view but leaves `%s` as it was: the element offsets index*%s then depend on the layout '
                                          'the view had before (a view once given an explicit stride keeps it), instead of the dense default sizeof(T)'
                                          % (name, f['params'][0].get('name') or 'data', sf[0]['name'], sf[0]['name']), loc,
                                          key='%s|%s|%s|stride-carried-over' % (R5, file, pname))
                        elif sv is None or (isinstance(sv, tuple) and sv[0] == 'sizeof' and sv[2] == et.get('size')) or sv == ('const', et.get('size')):
                            ctx.ok(R5, inst, 'stores the data pointer; stride is the dense default', loc)
                        else:
                            ctx.undecided(R5, inst, '`%s` is set to `%s`, not recognised as the dense default sizeof(T)' % (sf[0]['name'], show(sv)), loc)
                    continue
                # the stride is kept as given: a member narrower than the parameter it is stored from drops the high bits of a large pitch
                pw = INT_BITS.get(norm_type(f['params'][1]['ct']).replace('const ', '').strip())
                mw = INT_BITS.get(sf[0]['ct'])
                if pw is not None and mw is not None and mw < pw:
                    ctx.violation(R5, inst, '%s takes the stride as `%s` (%d bits) but the view keeps it in the member `%s` of type `%s` (%d bits): a pitch of 2^%d '
                                  'bytes or more between consecutive elements is truncated when it is stored (2^32 + 24 becomes 24, a value in [2^31, 2^32) '
                                  'becomes negative), so operator[](i) no longer reads the element at byte offset i*stride'
                                  % (name if not f.get('ctor') else 'the constructor', f['params'][1]['ct'], pw, sf[0]['name'], sf[0]['ct'], mw, mw if sf[0]['ct'].startswith('unsigned') else mw - 1), loc,
                                  key='%s|%s|%s|stride-narrowed' % (R5, file, pname))
                    continue
                for p in paths:
                    vals = {}
                    for e in p.events:
                        if e.kind == 'store' and e.place is not None:
                            vals[e.place] = unver(e.value)
                        if e.kind == 'init':
                            vals[e.place] = unver(e.value)
                    pv = vals.get(ptr)
                    if isinstance(pv, tuple) and pv and pv[0] == 'cast':
                        pv = pv[2]
                    probs = []
                    if pv != a0:
                        probs.append(('data-not-stored', '`%s` is set to `%s` instead of the data argument' % (pf[0]['name'], show(pv) if pv else 'nothing')))
                    unds = []
                    if vals.get(stride) != a1:
                        sv = vals.get(stride)
                        if sv is None or (isinstance(sv, tuple) and sv[0] in ('const', 'sizeof')) or sv == a0:
                            probs.append(('stride-not-stored', '`%s` is set to `%s` instead of the stride argument' % (sf[0]['name'], show(sv) if sv else 'nothing')))
                        else:
                            unds.append('`%s` is set to `%s`, which is not recognised as the stride argument' % (sf[0]['name'], show(sv)))
                    if unds and not probs:
                        for u in unds:
                            ctx.undecided(R5, inst, u, loc)
                    elif probs:
                        for kind, why in probs:
                            ctx.violation(R5, inst, why, loc, key='%s|%s|%s|%s' % (R5, file, pname, kind))
                    else:
                        ctx.ok(R5, inst, 'stores (data, stride)', loc)
    ctx.floor(R5, n, 12, 'record + operator[] + constructor + reset, x 3 element types')


REALLOC_CALLS = {'reserve', 'resize', 'push_back', 'emplace_back', 'insert', 'emplace', 'assign', 'shrink_to_fit', 'clear',
                 'operator=', 'swap', 'erase', 'pop_back', 'reset'}


def check_alias_after_realloc(ctx, tu, tag=''):
    """R-C11-7: in a member of an owning wrapper, a parameter through which the caller can name storage - a reference to an element
    value (a.resize(n, a[0])) or a pointer to elements (a.reset(a.data() + k, n), a pointer / ArrayView taken earlier) - may designate
    the array's *own* block.  After a call that can reallocate, release or destroy the owned elements (on the owner member directly,
    or through a member of the same class that does so), such a parameter must not be read (reference) / read through (pointer: passed
    on to a call or constructor, dereferenced) any more.  Reading it inside the argument list of that very call is fine: the arguments
    are evaluated before the call, and the standard containers handle self-aliasing arguments."""
    R7 = 'R-C11-7'
    ctx.describe(R7, 'a reference / pointer parameter of a member of an owning wrapper (it may designate the array\'s own storage) is not read '
                     '/ read through after a call that can reallocate, release or destroy the owned elements on the same path')
    n = 0
    by_rec = {}
    for f in tu.functions.values():
        if f['dep'] or tu.cfg(f) is None or not f.get('recid'):
            continue
        by_rec.setdefault(f['recid'], []).append(f)

    def owner_ids_of(r):
        return {fl['id'] for fl in r['fields'] if re.match(r'std::(vector|deque|basic_string|shared_ptr|unique_ptr)<', fl['ct'])}

    # members that (transitively) reallocate / release the owner: fixpoint over the class's own call graph
    releasing = {}
    for rid, fs in by_rec.items():
        r = tu.records.get(rid)
        if r is None or not r['q'].startswith('rkcommon::utility::'):
            continue
        oids = owner_ids_of(r)
        if not oids:
            continue
        direct, calls = {}, {}
        for f in fs:
            g = tu.cfg(f)
            d = None
            cs = set()
            for b, i, x in g.stmts():
                k = x.get('kind')
                if k in ('CXXMemberCallExpr', 'CXXOperatorCallExpr'):
                    sd, obj, args = tu.call_parts(x)
                    o = tu.strip(obj, casts=True) if obj is not None else None
                    if o is not None and o.get('kind') == 'MemberExpr' and tu.sd(o).get('d') in oids \
                            and last(strip_targs(sd.get('q', ''))) in REALLOC_CALLS and not re.search(r'\)\s*const\b', sd.get('fty', '')):
                        d = d or x
                    cal = tu.callee_fn(x)
                    if cal is not None and cal.get('recid') == rid and (o is None or tu.is_this(o) or o.get('kind') == 'CXXThisExpr'):
                        cs.add(cal['id'])
            direct[f['id']] = d
            calls[f['id']] = cs
        rel = {fid for fid, d in direct.items() if d is not None}
        changed = True
        while changed:
            changed = False
            for fid, cs in calls.items():
                if fid not in rel and cs & rel:
                    rel.add(fid)
                    changed = True
        for fid in rel:
            releasing[fid] = True

    # Two passes: first the non-public helpers (what they read late is charged to the public member that hands its own parameter
    # down to them; a private helper is only ever called with arguments its class chooses), then the public members.
    late = {}       # helper function id -> {parameter index: (read node, releasing call id, 'ref'|'ptr')}
    cands = [f for f in sorted(tu.functions.values(), key=lambda x: (x['q'], x['fty']))
             if not (f['dep'] or tu.cfg(f) is None or not f.get('recid') or f.get('ctor') or f.get('dtor'))]
    cands.sort(key=lambda f: f.get('access') in (None, 'public', 'protected', 'none'))
    for rounds in range(3):
      for f in cands:
        is_api = f.get('access') in (None, 'public', 'protected', 'none')
        if is_api and rounds < 2:
            continue
        if not is_api and rounds == 2:
            continue
        r = tu.records.get(f['recid'])
        if r is None or not r['q'].startswith('rkcommon::utility::') or not r.get('targs') or 't' not in r['targs'][0]:
            continue
        elem = r['targs'][0]['t']
        owner_ids = owner_ids_of(r)
        if not owner_ids:
            continue
        refs = [p for p in f['params'] if p['ct'] in ('const %s &' % elem, '%s &' % elem)]
        ptrs = [p for p in f['params'] if p['ct'] in ('%s *' % elem, 'const %s *' % elem)]
        if not refs and not ptrs:
            continue
        g = tu.cfg(f)
        inst = inst_name(f) + tag
        ref_ids = {p['id']: p['name'] for p in refs}
        ptr_ids = {p['id']: p['name'] for p in ptrs}
        pindex = {p['id']: i for i, p in enumerate(f['params'])}
        found = []

        def reads_through(x):
            """is this use of a pointer parameter a read of the pointed-to storage (argument of a call / constructor, dereference,
            subscript, member access), possibly after pointer arithmetic?  A comparison or a test of the pointer itself is not."""
            node = x
            hops = 0
            while hops < 12:
                par = tu.par(node)
                if par is None:
                    return False
                k = par.get('kind')
                if k in ('ImplicitCastExpr', 'ParenExpr', 'CStyleCastExpr', 'CXXStaticCastExpr', 'CXXReinterpretCastExpr', 'CXXConstCastExpr',
                         'MaterializeTemporaryExpr', 'ExprWithCleanups', 'CXXBindTemporaryExpr'):
                    node = par
                elif k == 'BinaryOperator' and par.get('opcode') in ('+', '-'):
                    node = par
                elif k in ('CallExpr', 'CXXMemberCallExpr', 'CXXOperatorCallExpr', 'CXXConstructExpr', 'CXXTemporaryObjectExpr'):
                    return True
                elif k == 'UnaryOperator' and par.get('opcode') == '*':
                    return True
                elif k == 'ArraySubscriptExpr':
                    return True
                elif k == 'MemberExpr' and par.get('isArrow'):
                    return True
                else:
                    return False
                hops += 1
            return False

        def transfer(blk, i, el, st):
            if el[0] != 'S':
                return [st]
            x = tu.node(el[1])
            if x is None:
                return [st]
            k = x.get('kind')
            if k in ('CXXMemberCallExpr', 'CXXOperatorCallExpr'):
                sd, obj, args = tu.call_parts(x)
                o = tu.strip(obj, casts=True) if obj is not None else None
                if o is not None and o.get('kind') == 'MemberExpr' and tu.sd(o).get('d') in owner_ids \
                        and last(strip_targs(sd.get('q', ''))) in REALLOC_CALLS and not re.search(r'\)\s*const\b', sd.get('fty', '')):
                    return [x['id']]
                cal = tu.callee_fn(x)
                if cal is not None and cal.get('recid') == f['recid'] and (o is None or o.get('kind') == 'CXXThisExpr' or tu.is_this(o)):
                    # a helper that releases the block and afterwards reads its own parameter: charged here when that parameter is
                    # (derived from) one of ours
                    for ai, (rnode, rcall, rhow) in late.get(cal['id'], {}).items():
                        if ai < len(args):
                            a = tu.strip(args[ai], casts=True)
                            while a is not None and a.get('kind') == 'BinaryOperator' and a.get('opcode') in ('+', '-'):
                                a = tu.strip(tu.kids(a)[0], casts=True)
                            did = a.get('referencedDecl', {}).get('id') if a is not None and a.get('kind') == 'DeclRefExpr' else None
                            if did in ref_ids or did in ptr_ids:
                                found.append((a, x['id'], 'ref' if did in ref_ids else 'ptr', (cal, rnode, rcall)))
                    if releasing.get(cal['id']):
                        return [x['id']]
            if k == 'DeclRefExpr' and st is not None:
                did = x.get('referencedDecl', {}).get('id')
                if did in ref_ids:
                    found.append((x, st, 'ref'))
                elif did in ptr_ids and reads_through(x):
                    found.append((x, st, 'ptr'))
            return [st]

        g.explore([None], transfer)
        if not is_api:
            lr = {}
            for fd in found:
                x, callid, how = fd[0], fd[1], fd[2]
                i_ = pindex.get(x.get('referencedDecl', {}).get('id'))
                if i_ is not None:
                    lr.setdefault(i_, (x, callid, how))
            late[f['id']] = lr
            continue
        n += 1
        if found:
            x, callid, how = found[0][0], found[0][1], found[0][2]
            via = found[0][3] if len(found[0]) > 3 else None
            call = tu.node(callid)
            if via is not None:
                hcal, rnode, rcall = via
                ctx.violation(R7, inst, 'parameter `%s` is handed to `%s`, which first releases / reallocates the array\'s own block (`%s` at %s) and then '
                              'reads through it at %s; `%s` may point into that block (a pointer, reference or view taken from this array earlier)'
                              % ((ref_ids if how == 'ref' else ptr_ids)[x['referencedDecl']['id']], short(strip_targs(hcal['q'])),
                                 tu.show(tu.node(rcall)), tu.loc(tu.node(rcall)), tu.loc(rnode), (ref_ids if how == 'ref' else ptr_ids)[x['referencedDecl']['id']]),
                              tu.loc(x), key='%s|%s|%s|%s' % (R7, tu.fn_file(f), pattern_name(tu, f),
                                                               'param-read-after-realloc' if how == 'ref' else 'pointer-param-read-after-release'),
                              path=[inst, 'passed to %s at %s' % (hcal['q'], tu.loc(call)), 'released at %s' % tu.loc(tu.node(rcall)), 'read at %s' % tu.loc(rnode)])
                continue
            nm = (ref_ids if how == 'ref' else ptr_ids)[x['referencedDecl']['id']]
            if how == 'ref':
                ctx.violation(R7, inst, 'parameter `%s` (a reference to an element type value, which may be an element of this array) is read at %s '
                              'after `%s` at %s may already have reallocated or destroyed the owned elements: use-after-free for '
                              'a.%s(..., a[i])' % (nm, tu.loc(x), tu.show(call), tu.loc(call), f['q'].split('::')[-1]),
                              tu.loc(x), key='%s|%s|%s|param-read-after-realloc' % (R7, tu.fn_file(f), pattern_name(tu, f)),
                              path=['%s' % inst, 'reallocating call %s at %s' % (tu.show(call), tu.loc(call)), 'later read of the parameter at %s' % tu.loc(x)])
            else:
                ctx.violation(R7, inst, 'the elements `%s` points to are read at %s (`%s`) after `%s` at %s has already released / reallocated the '
                              'array\'s own block; `%s` may point into that block (a.%s(a.data() + k, n), a pointer or view taken earlier): the source '
                              'is freed before it is copied' % (nm, tu.loc(x), tu.show(tu.par(x) or x), tu.show(call), tu.loc(call), nm, f['q'].split('::')[-1]),
                              tu.loc(x), key='%s|%s|%s|pointer-param-read-after-release' % (R7, tu.fn_file(f), pattern_name(tu, f)),
                              path=['%s' % inst, 'releasing call %s at %s' % (tu.show(call), tu.loc(call)), 'later read through the parameter at %s' % tu.loc(x)])
        else:
            ctx.ok(R7, inst, 'parameter(s) %s not read (through) after a reallocating / releasing call' % sorted(list(ref_ids.values()) + list(ptr_ids.values())),
                   tu.fn_loc(f))
    ctx.floor(R7 + tag, n, 3, 'OwnedArray<T>::resize(size, const T&) for the instantiated element types')


def pattern_dtor(tu, cls):
    """(access, virtual?) of the destructor as declared in the class template `cls` (implicit: public, not virtual)"""
    for top in tu.decls:
        for n in tu.walk(top):
            if n.get('kind') == 'ClassTemplateDecl' and n.get('name') == cls:
                for rec in tu.kids(n):
                    if rec.get('kind') != 'CXXRecordDecl' or not rec.get('completeDefinition'):
                        continue
                    acc = 'private' if rec.get('tagUsed') == 'class' else 'public'
                    for mbr in tu.kids(rec):
                        if mbr.get('kind') == 'AccessSpecDecl':
                            acc = mbr.get('access', acc)
                        elif mbr.get('kind') == 'CXXDestructorDecl' and not mbr.get('isImplicit'):
                            return acc, bool(mbr.get('virtual'))
                    return 'public', False
    return 'public', False


def check_polymorphic_destruction(ctx, tu, tag=''):
    """R-C11-8: AbstractArray is the common interface of wrappers that own storage (a vector, a shared_ptr).  An owning wrapper
    destroyed through a pointer / reference to the base releases its storage only if the base destructor is virtual; a base
    destructor that is not publicly accessible (deletion through the base is impossible) is the other correct form."""
    R8 = 'R-C11-8'
    ctx.describe(R8, 'the destructor of AbstractArray, the interface the owning wrappers are handled through, is virtual (or not publicly accessible): '
                     'destroying an OwnedArray / FixedArray / FixedArrayView through the base must release what it owns')
    m = Model(tu)
    n = 0
    allbases = {r['type']: r for r in tu.records.values() if r.get('tmpl') == ABS and not r.get('lambda')}
    for btype, r in sorted(allbases.items()):
        inst = short(btype) + tag
        file = rec_file(tu, r)
        owning = [w for w in m.wrappers.values() if btype in w.get('bases', []) and m.owners(w) and not w.get('trivial_dtor')]
        dts = [f for f in tu.functions.values() if f.get('recid') == r['id'] and f.get('dtor')]
        n += 1
        if not dts:
            acc, virt = pattern_dtor(tu, 'AbstractArray')
            if virt:
                ctx.ok(R8, inst, 'virtual destructor (declaration)', file)
                continue
            if acc in ('protected', 'private'):
                ctx.ok(R8, inst, 'non-virtual but %s destructor: objects cannot be destroyed through the base' % acc, file)
                continue
            if r.get('trivial_dtor') and owning:
                ctx.violation(R8, inst, 'AbstractArray has a trivial (hence non-virtual, public) destructor but %s own storage: deleting one of them through '
                              'an AbstractArray pointer runs no derived destructor and leaks / corrupts the owned storage'
                              % ', '.join(sorted(short(w['type']) for w in owning)), file,
                              key='%s|%s|AbstractArray|base-destructor-not-virtual' % (R8, file))
            else:
                ctx.undecided(R8, inst, 'no destructor entry for the base in the facts', file)
            continue
        d = dts[0]
        if d.get('virt'):
            ctx.ok(R8, inst, 'virtual destructor; owning subclasses: %s' % sorted(short(w['type']) for w in owning), tu.fn_loc(d))
        elif d.get('access') in ('protected', 'private'):
            ctx.ok(R8, inst, 'non-virtual but %s destructor: objects cannot be destroyed through the base' % d.get('access'), tu.fn_loc(d))
        elif owning:
            ctx.violation(R8, inst, 'the destructor of AbstractArray is public and not virtual, but %s own storage (%s): an array handled and destroyed '
                          'through its AbstractArray interface (delete via base pointer, unique_ptr<AbstractArray<T>>) never runs the derived '
                          'destructor - undefined behaviour, in practice the owned buffer is leaked or freed with the wrong size'
                          % (', '.join(sorted(short(w['type']) for w in owning)),
                             ', '.join(sorted({'%s::%s' % (short(w['q']), o[0]) for w in owning for o in m.owners(w)}))), tu.fn_loc(d),
                          key='%s|%s|AbstractArray|base-destructor-not-virtual' % (R8, file),
                          path=['%s is a base of %s' % (short(btype), ', '.join(sorted(short(w['type']) for w in owning)))])
        else:
            ctx.ok(R8, inst, 'non-virtual destructor, no owning subclass instantiated', tu.fn_loc(d), nontrivial=False)
    ctx.floor(R8 + tag, n, 3, 'AbstractArray<T> for the instantiated element types')


def run(ctx):
    ctx.assume('callers pass (pointer, size) pairs that designate live storage of that many elements; FixedArrayView callers pass '
               'offset + size within the viewed array')
    ctx.assume('std::vector, std::shared_ptr, std::array behave as documented (data()/size() of a vector stay valid until the next '
               'non-const operation on it; a shared_ptr keeps its pointee alive)')
    ctx.assume('exceptions: only new-expressions are modelled as points where a member can be left early; container operations are '
               'taken to give the strong guarantee')
    jobs = [dict(unit='drivers/c11_arrays.cpp', config='TBB')]
    if ctx.tier == 'thorough':
        jobs.append(dict(unit='drivers/c11_arrays.cpp', config='TBB', std='gnu++17', extra=('-DRKVERIF_C11_WIDE',)))
        jobs.append(dict(unit='drivers/c11_arrays.cpp', config='DEBUG', simd=False, extra=('-DRKVERIF_C11_WIDE',)))
    tus = ctx.front.parse_many(jobs)
    for i, tu in enumerate(tus):
        tag = '' if i == 0 else ' [%s]' % ('gnu++17' if i == 1 else 'DEBUG,NO_SIMD')
        check_wrappers(ctx, tu, tag)
        check_abstract(ctx, tu, tag)
        check_dataview(ctx, tu, tag)
        check_alias_after_realloc(ctx, tu, tag)
        check_polymorphic_destruction(ctx, tu, tag)
    from rkstatic import selftest
    selftest.run(ctx)
